"""C05 - multiclass confusion matrices: faithful construction, conservative one-vs-all."""

from __future__ import annotations

import itertools
import math
from fractions import Fraction as F

import numpy as np
import pandas as pd

from mc.harness import guarded

ID = "C05"
TITLE = "Multiclass confusion matrices: faithful construction, conservative one-vs-all"
ENGINE = "array-enumerator"
RULE = (
    "state = one (class set, label sequence, prediction sequence, weights) tuple or one NxN matrix over the entry "
    "alphabet in one input form/class permutation/leading shape; transition = one ConfusionMatrix construction or "
    "metric call compared with direct weighted counting / exact one-vs-all definitions; non-trivial = the matrix "
    "is not symmetric under transposition (label/prediction roles distinguishable) and has a non-zero off-diagonal "
    "entry; distinct by construction"
)
ASSUMPTIONS = [
    "class sets [0,1], [0,1,2], ['b','a','c']; sequences of bounded length; matrix entries over {0,1,2}",
    "weights None / small ints / dyadic floats (exact sums)",
    "pandas DataFrame construction and .loc reordering are exercised, pandas itself is trusted",
]

PER_CLASS = ["tp", "tn", "fp", "fn", "p", "n", "top", "ton", "tpr", "tnr", "fpr", "fnr", "tar", "frr", "trr", "far",
             "topr", "tonr", "acceptance_rate", "rejection_rate", "ppv", "npv", "fdr", "for_", "class_accuracy",
             "class_error_rate"]
PER_CLASS_CI = ["tpr_ci", "tnr_ci", "fpr_ci", "fnr_ci", "tar_ci", "frr_ci", "trr_ci", "far_ci"]


def bounds(tier):
    if tier == "quick":
        return {"seq_len": {"2": 4, "3": 3}, "matrix_entries": [0, 1, 2], "N": [2, 3], "N3_stride": 7,
                "leading_shapes": [[], [2], [2, 3], [2, 1, 2]], "weights": ["none", "ints", "floats", "tiny", "u8"]}
    return {"seq_len": {"2": 5, "3": 4}, "matrix_entries": [0, 1, 2], "N": [2, 3, 4], "N3_stride": 1,
            "leading_shapes": [[], [2], [2, 2], [0], [1, 3], [2, 3], [3, 1, 2]], "weights": ["none", "ints", "floats", "tiny", "u8"]}


# the last ones: float classes whose floor is not their rank, integers that are not 0..N-1, labels of mixed length
CLASS_SETS = [[0, 1], [0, 1, 2], ["b", "a", "c"], [0.0, 0.5, 2.0], [2, 5, 3], ["x", "xy", ""], [-1.5, 0.0]]


def work(tier, seed):
    b = bounds(tier)
    items = []
    # (1) from labels/predictions
    for ci, classes in enumerate(CLASS_SETS):
        L = b["seq_len"][str(len(classes))]
        for n in range(0, L + 1):
            pairs = list(itertools.product(range(len(classes)), repeat=2))
            seqs = list(itertools.product(pairs, repeat=n))
            chunk = 400
            for k in range(0, len(seqs), chunk):
                items.append({"kind": "pred", "classes": classes, "n": n, "start": k, "stop": min(len(seqs), k + chunk)})
    # (1b) many classes (internal codes / flat cell indices leave small integer types from N = 12 and N = 182 on)
    for N in (12, 13, 17, 40, 100, 127, 130, 182, 200, 260):
        items.append({"kind": "many_classes", "N": N})
    # (1c) several hundred samples whose weights span sixty binades (dyadic, so every cell total is exact in double)
    for n_samples in (600, 4097):
        items.append({"kind": "many_samples", "n": n_samples})
    # (2) from matrices
    for N in b["N"]:
        ents = b["matrix_entries"] if N < 4 else [0, 1]
        total = len(ents) ** (N * N)
        stride = b["N3_stride"] if N == 3 else (1 if N == 2 else 97)
        idxs = list(range(0, total, stride))
        chunk = 150
        for k in range(0, len(idxs), chunk):
            items.append({"kind": "matrix", "N": N, "entries": ents, "idxs": idxs[k:k + chunk]})
    return items


def _run_many_samples(item, ctx):
    from score_analysis import ConfusionMatrix

    n = item["n"]
    for classes in ([3, 1, 0, 2], ["c", "a", "b"]):
        N = len(classes)
        labels = [classes[(i * 7) % N] for i in range(n)]
        preds = [classes[(i * 5 + i // N) % N] for i in range(n)]
        heavy = (classes[0], classes[0])
        for wk, w in (("heavy-first-cell", [2.0 ** 30 if (l_, p_) == heavy else 2.0 ** -30 * (1 + i % 3) for i, (l_, p_) in enumerate(zip(labels, preds))]),
                      ("heavy-last-cell", [2.0 ** 30 if (l_, p_) == (classes[-1], classes[-1]) else 2.0 ** -30 * (1 + i % 3)
                                           for i, (l_, p_) in enumerate(zip(labels, preds))]),
                      ("none", None)):
            want = ref_matrix(classes, labels, preds, w)
            case = {"kind": "many_samples", "n": n, "classes": classes, "weights": wk}
            ctx.state()
            ctx.nontrivial()
            ok, cm = guarded(ctx, "construct-from-predictions", case, lambda: ConfusionMatrix(labels=labels, predictions=preds, weights=w, classes=classes))
            ctx.tick()
            if ok and not _eqf(cm.matrix, want):
                got = np.asarray(cm.matrix, dtype=float)
                wantf = np.array([[float(x) for x in r] for r in want])
                bad = np.argwhere(got != wantf)[:1].tolist()
                ctx.fail("entry-is-total-weight", dict(case, first_wrong_cell=bad), observed=float(got[tuple(bad[0])]) if bad else None,
                         expected=float(wantf[tuple(bad[0])]) if bad else None)
    ctx.sample({"kind": "many_samples", "n": n})
    return None


def _run_many_classes(item, ctx):
    from score_analysis import ConfusionMatrix

    N = item["N"]
    for order_name in ("sorted", "shuffled", "strings"):
        classes = list(range(N))
        if order_name == "shuffled":
            classes = [(i * 7 + 3) % N for i in range(N)] if math.gcd(7, N) == 1 else [(i * 11 + 3) % N for i in range(N)]
            if len(set(classes)) != N:
                classes = list(range(N))[::-1]
        if order_name == "strings":
            classes = ["c%03d" % i for i in range(N)][::-1]
        # samples in every corner of the matrix and along a band (every row and column is hit, high cell indices too)
        pairs = [(0, 0), (0, N - 1), (N - 1, 0), (N - 1, N - 1), (N - 1, N - 2), (N // 2, N - 1)]
        pairs += [(i, (i * 5 + 1) % N) for i in range(N)] + [(i, i) for i in range(0, N, 3)] + [(N - 1, N - 1)] * 2
        labels = [classes[i] for i, _ in pairs]
        preds = [classes[j] for _, j in pairs]
        for wk in ("none", "floats"):
            w = None if wk == "none" else [0.5 + 0.25 * (k % 4) for k in range(len(pairs))]
            want = [[F(0)] * N for _ in range(N)]
            for k, (i, j) in enumerate(pairs):
                want[i][j] += F(1) if w is None else F(w[k])
            for how in ("explicit-classes", "inferred"):
                if how == "inferred" and order_name == "shuffled":
                    continue
                case = {"kind": "many_classes", "N": N, "class_order": order_name, "weights": wk, "classes": how}
                ctx.state()
                ctx.nontrivial()
                ok, cm = guarded(ctx, "construct-from-predictions", case, lambda: ConfusionMatrix(
                    labels=labels, predictions=preds, weights=w, classes=classes if how == "explicit-classes" else None))
                ctx.tick()
                if not ok:
                    continue
                cls = list(cm.classes)
                exp_cls = classes if how == "explicit-classes" else sorted(classes)
                if cls != exp_cls:
                    ctx.fail("classes-in-requested-order" if how == "explicit-classes" else "default-classes-sorted-union", case,
                             observed=cls[:5], expected=exp_cls[:5])
                    continue
                idx = [classes.index(c) for c in cls]
                got = np.asarray(cm.matrix, dtype=float)
                wantm = np.array([[float(want[a][c]) for c in idx] for a in idx])
                if got.shape != wantm.shape or not np.array_equal(got, wantm):
                    bad = np.argwhere(got != wantm)[:1].tolist() if got.shape == wantm.shape else "shape"
                    ctx.fail("entry-is-total-weight", dict(case, first_wrong_cell=bad), observed=float(got[tuple(bad[0])]) if bad != "shape" else list(got.shape),
                             expected=float(wantm[tuple(bad[0])]) if bad != "shape" else list(wantm.shape))
                    continue
                ok, tpr = guarded(ctx, "per-class-tpr", case, lambda: np.asarray(cm.tpr(), dtype=float))
                ctx.tick()
                if ok:
                    rows = wantm.sum(axis=1)
                    wt = np.where(rows > 0, np.diag(wantm) / np.where(rows > 0, rows, 1), np.nan)
                    if tpr.shape != (N,) or not np.allclose(tpr, wt, rtol=0, atol=1e-15, equal_nan=True):
                        ctx.fail("per-class-metric-equals-definition", dict(case, metric="tpr"), observed=tpr[:5], expected=wt[:5])
    ctx.sample({"kind": "many_classes", "N": N})
    return None


def _mat_from_index(i, N, ents):
    out = []
    for _ in range(N * N):
        out.append(ents[i % len(ents)])
        i //= len(ents)
    return [out[r * N:(r + 1) * N] for r in range(N)]


def _weights(kind, n):
    if kind == "none":
        return None
    if kind == "ints":
        return [1 + (i * 2) % 3 for i in range(n)]
    if kind == "u8":  # unsigned 8-bit weights whose totals leave the dtype (known finding D19)
        return np.array([100 + (i * 50) % 150 for i in range(n)], dtype=np.uint8)
    if kind == "tiny":  # importance weights of tiny magnitude (dyadic, so sums stay exact)
        return [(1 + (i % 3)) * 2.0 ** -40 for i in range(n)]
    return [0.5 + 0.25 * (i % 4) for i in range(n)]


def ref_matrix(classes, labels, preds, weights):
    N = len(classes)
    m = [[F(0)] * N for _ in range(N)]
    for i, (l_, p_) in enumerate(zip(labels, preds)):
        w = F(1) if weights is None else F(weights[i].item() if isinstance(weights[i], np.generic) else weights[i])
        m[classes.index(l_)][classes.index(p_)] += w
    return m


def ref_one_vs_all(m, j):
    N = len(m)
    tot = sum(sum(r) for r in m)
    tp = m[j][j]
    fn = sum(m[j]) - tp
    fp = sum(m[r][j] for r in range(N)) - tp
    return [[tp, fn], [fp, tot - tp - fn - fp]]


def _eqf(got, want):
    """NumPy array equals nested list of Fractions exactly."""
    g = np.asarray(got)
    if g.dtype.kind in "iu":  # integer results are compared as exact integers (cells beyond 2^53 included)
        rows = g.tolist()
        return (len(rows) == len(want) and all(len(r) == len(wr) for r, wr in zip(rows, want))
                and all(F(int(x)) == y for r, wr in zip(rows, want) for x, y in zip(r, wr)))
    w = np.array([[float(x) for x in row] for row in want])
    return g.shape == w.shape and np.array_equal(g.astype(float), w)


def check_cm_object(ctx, case, cm, m, classes):
    """one_vs_all and per-class metrics of a single (N,N) ConfusionMatrix vs exact definitions."""
    from mc.props.c04 import definitions

    N = len(classes)
    tot = sum(sum(r) for r in m)
    ok, ova = guarded(ctx, "one_vs_all", case, lambda: cm.one_vs_all().matrix)
    ctx.tick()
    if not ok:
        return
    if ova.shape != (N, 2, 2):
        ctx.fail("one-vs-all-shape", case, observed=list(ova.shape), expected=[N, 2, 2])
        return
    defs = []
    for j in range(N):
        want = ref_one_vs_all(m, j)
        defs.append(definitions(want))
        if not _eqf(ova[j], want):
            ctx.fail("one-vs-all-equals-definition", dict(case, cls=j), observed=ova[j], expected=[[float(x) for x in r] for r in want])
        if (F(int(ova[j].sum())) if np.asarray(ova).dtype.kind in "iu" else F(float(ova[j].sum()))) != tot:
            ctx.fail("one-vs-all-conserves-population", dict(case, cls=j), observed=float(ova[j].sum()), expected=float(tot))
    # a caller holds the one-vs-all object and queries it repeatedly: rates first, then everything else
    ok_h, held = guarded(ctx, "one_vs_all", case, cm.one_vs_all)
    if ok_h:
        before = np.array(held.matrix, copy=True)
        for nm_ in ("tpr", "fnr", "ppv", "npv", "tnr", "fpr", "topr", "accuracy", "tpr_ci"):
            guarded(ctx, "held-" + nm_, case, lambda: getattr(held, nm_)())
        ctx.tick()
        if not np.array_equal(np.asarray(held.matrix), before):
            ctx.fail("queries-leave-the-one-vs-all-matrix-unchanged", case, observed=held.matrix, expected=before)
        if not np.array_equal(np.asarray(cm.matrix, dtype=float), np.array([[float(x) for x in r] for r in m])):
            ctx.fail("queries-leave-the-matrix-unchanged", case, observed=cm.matrix, expected=[[float(x) for x in r] for r in m])
    ok, acc = guarded(ctx, "accuracy", case, cm.accuracy)
    ctx.tick()
    if ok:
        tr = sum(m[j][j] for j in range(N))
        if tot == 0:
            if not (isinstance(acc, float) and math.isnan(acc)):
                ctx.fail("accuracy-nan-on-empty", case, observed=acc, expected="nan")
        elif not (isinstance(acc, float) and abs(acc - float(tr / tot)) <= 1e-15):
            ctx.fail("accuracy-is-trace-over-population", case, observed=acc, expected=float(tr / tot))
    key = {"class_accuracy": "accuracy", "class_error_rate": "error_rate", "tar": "tpr", "frr": "fnr", "trr": "tnr",
           "far": "fpr", "acceptance_rate": "topr", "rejection_rate": "tonr"}
    for nm in PER_CLASS:
        ok, v = guarded(ctx, "per-class-" + nm, case, lambda: getattr(cm, nm)())
        ctx.tick()
        if not ok:
            continue
        v = np.asarray(v, dtype=float)
        if v.shape != (N,):
            ctx.fail("per-class-shape", dict(case, metric=nm), observed=list(v.shape), expected=[N])
            continue
        for j in range(N):
            want = defs[j][key.get(nm, nm)]
            if want is None:
                good = math.isnan(v[j])
            else:
                good = abs(v[j] - float(want)) <= 1e-12
            if not good:
                ctx.fail("per-class-metric-equals-definition", dict(case, metric=nm, cls=j), observed=float(v[j]),
                         expected=None if want is None else float(want))
        ok, dct = guarded(ctx, "as-dict-" + nm, case, lambda: getattr(cm, nm)(as_dict=True))
        ctx.tick()
        if ok:
            if list(dct.keys()) != list(classes):
                ctx.fail("as-dict-keys", dict(case, metric=nm), observed=list(dct.keys()), expected=list(classes))
            else:
                for j, c in enumerate(classes):
                    if not np.array_equal(np.asarray(dct[c], dtype=float), v[j], equal_nan=True):
                        ctx.fail("as-dict-agrees", dict(case, metric=nm, cls=j), observed=dct[c], expected=float(v[j]))
    for nm in PER_CLASS_CI:
        for alpha in (0.05, 0.3):
            ok, v = guarded(ctx, "per-class-" + nm, case, lambda: getattr(cm, nm)(alpha=alpha))
            ctx.tick()
            if not ok:
                continue
            v = np.asarray(v, dtype=float)
            if v.shape != (N, 2):
                ctx.fail("per-class-ci-shape", dict(case, metric=nm), observed=list(v.shape), expected=[N, 2])
                continue
            base = {"tar_ci": "tpr_ci", "frr_ci": "fnr_ci", "trr_ci": "tnr_ci", "far_ci": "fpr_ci"}.get(nm, nm)
            from mc import refs
            from mc.props.c04 import CIS

            cn, nn = CIS[base]
            for j in range(N):
                want = refs.ref_binomial_ci(float(defs[j][cn]), float(defs[j][nn]), alpha)
                if not np.allclose(v[j], want, rtol=0, atol=1e-9, equal_nan=True):
                    ctx.fail("per-class-ci-equals-definition", dict(case, metric=nm, cls=j, alpha=alpha), observed=v[j],
                             expected=want)
            ok, dct = guarded(ctx, "as-dict-" + nm, case, lambda: getattr(cm, nm)(alpha=alpha, as_dict=True))
            ctx.tick()
            if ok:
                for j, c in enumerate(classes):
                    if c not in dct or not np.array_equal(np.asarray(dct[c], dtype=float), v[j], equal_nan=True):
                        ctx.fail("as-dict-agrees", dict(case, metric=nm, cls=j), observed=dct.get(c), expected=v[j])


def run(item, ctx, tier, seed):
    from score_analysis import ConfusionMatrix

    b = bounds(tier)
    if item["kind"] == "many_classes":
        return _run_many_classes(item, ctx)
    if item["kind"] == "many_samples":
        return _run_many_samples(item, ctx)
    if item["kind"] == "pred":
        classes = item["classes"]
        N = len(classes)
        pairs = list(itertools.product(range(N), repeat=2))
        seqs = itertools.islice(itertools.product(pairs, repeat=item["n"]), item["start"], item["stop"])
        perms = list(itertools.permutations(range(N)))
        for sq in seqs:
            labels = [classes[a] for a, _ in sq]
            preds = [classes[p_] for _, p_ in sq]
            for wk in b["weights"]:
                w = _weights(wk, len(sq))
                m = ref_matrix(classes, labels, preds, w)
                asym = any(m[i][j] != m[j][i] for i in range(N) for j in range(N))
                for pi, perm in enumerate(perms):
                    if pi and wk != "none":
                        continue
                    order = [classes[i] for i in perm]
                    mp = [[m[a][c] for c in perm] for a in perm]
                    case = {"labels": labels, "predictions": preds, "weights": w, "classes": order}
                    if wk == "u8":
                        case["weights_dtype"] = "uint8"
                    ctx.state()
                    if asym:
                        ctx.nontrivial()
                    ok, cm = guarded(ctx, "construct-from-predictions", case,
                                     lambda: ConfusionMatrix(labels=labels, predictions=preds, weights=w, classes=order))
                    ctx.tick()
                    if not ok:
                        continue
                    if list(cm.classes) != order:
                        ctx.fail("classes-in-requested-order", case, observed=list(cm.classes), expected=order)
                    if not _eqf(cm.matrix, mp):
                        ctx.fail("entry-is-total-weight", case, observed=cm.matrix,
                                 expected=[[float(x) for x in r] for r in mp],
                                 snippet=("from score_analysis import ConfusionMatrix\n"
                                          f"print(ConfusionMatrix(labels={labels!r}, predictions={preds!r}, "
                                          f"weights={w!r}, classes={order!r}).matrix)\n"))
                    ctx.outcome(("pred", cm.matrix.tobytes()))
                    if pi == 0 and wk in ("none", "tiny"):
                        check_cm_object(ctx, case, cm, mp, order)
                # default classes (sorted union of the values that occur)
                if wk == "none" and len(sq):
                    occ = sorted(set(labels) | set(preds))
                    if len(occ) >= 2:
                        case = {"labels": labels, "predictions": preds, "classes": None}
                        ok, cm = guarded(ctx, "construct-default-classes", case,
                                         lambda: ConfusionMatrix(labels=labels, predictions=preds))
                        ctx.tick()
                        if ok:
                            mo = ref_matrix(occ, labels, preds, None)
                            if list(cm.classes) != occ or not _eqf(cm.matrix, mo):
                                ctx.fail("default-classes-sorted-union", case, observed=[list(cm.classes), cm.matrix],
                                         expected=[occ, [[float(x) for x in r] for r in mo]])
        ctx.sample({"kind": "pred", "classes": classes, "n": item["n"], "range": [item["start"], item["stop"]]})
        return None
    # ---------------------------------------------------------------- matrices
    N, ents = item["N"], item["entries"]
    names = {2: ["x", "y"], 3: ["b", "a", "c"], 4: [3, 1, 2, 0]}[N]
    perms = list(itertools.permutations(range(N)))
    for i in item["idxs"]:
        m = _mat_from_index(i, N, ents)
        mF = [[F(x) for x in r] for r in m]
        asym = any(m[a][c] != m[c][a] for a in range(N) for c in range(N))
        case = {"matrix": m, "classes": names}
        ctx.state()
        if asym:
            ctx.nontrivial()
        # equivalent input forms
        as_dict = {names[a]: {names[c]: m[a][c] for c in range(N)} for a in range(N)}
        rowp, colp = perms[(i + 1) % len(perms)], perms[(i * 5 + 2) % len(perms)]
        df = pd.DataFrame([[m[a][c] for c in colp] for a in rowp], index=[names[a] for a in rowp],
                          columns=[names[c] for c in colp])
        dict_shuffled = {names[a]: {names[c]: m[a][c] for c in colp} for a in rowp}
        # outer keys in class order, the first row in class order too, later rows with their own inner key orders
        dict_ragged = {names[a]: {names[c]: m[a][c] for c in (range(N) if a == 0 else perms[(i + 3 * a) % len(perms)])} for a in range(N)}
        base = None
        if i % 3 == 1:
            ok_f, cmf = guarded(ctx, "construct-float", case, lambda: ConfusionMatrix(matrix=np.array(m, dtype=float) * 0.5, classes=names))
            ctx.tick()
            if ok_f:
                check_cm_object(ctx, dict(case, dtype="float64 x0.5"), cmf, [[x / 2 for x in r] for r in mF], names)
        if i % 3 == 0 and any(x == 2 for r in m for x in r):
            # cells of very different magnitude in one matrix (importance weights): 2 -> 1e15, sums stay exact in float64
            md = [[1e15 if x == 2 else float(x) for x in r] for r in m]
            ok_d, cmd = guarded(ctx, "construct-dynamic-range", case, lambda: ConfusionMatrix(matrix=np.array(md), classes=names))
            ctx.tick()
            if ok_d:
                check_cm_object(ctx, dict(case, dtype="float64, 2 -> 1e15"), cmd, [[F(x) for x in r] for r in md], names)
        if i % 3 == 2:
            # small integer dtypes with cells near the top of their range (row / column totals leave the dtype)
            for dt_, k_ in ((np.uint8, 100), (np.int8, 60), (np.int16, 16000), (np.uint64, 2**53 + 1)):
                ok_s, cms = guarded(ctx, "construct-small-int", dict(case, dtype=np.dtype(dt_).name, times=k_),
                                    lambda: ConfusionMatrix(matrix=(np.array(m) * k_).astype(dt_), classes=names))
                ctx.tick()
                if ok_s:
                    check_cm_object(ctx, dict(case, dtype=np.dtype(dt_).name, times=k_), cms, [[x * k_ for x in r] for r in mF], names)
        for form, kwargs in (("nested-list", dict(matrix=m, classes=names)),
                             ("ndarray", dict(matrix=np.array(m), classes=names)),
                             ("dict", dict(matrix=as_dict)),
                             ("dict+classes", dict(matrix=dict_shuffled, classes=names)),
                             ("dict-ragged-inner-order", dict(matrix=dict_ragged)),
                             ("dict-ragged-inner-order+classes", dict(matrix=dict_ragged, classes=names)),
                             ("dataframe+classes", dict(matrix=df, classes=names))):
            ok, cm = guarded(ctx, "construct-" + form, dict(case, form=form), lambda: ConfusionMatrix(**kwargs))
            ctx.tick()
            if not ok:
                continue
            if list(cm.classes) != names or not _eqf(cm.matrix, mF):
                ctx.fail("equivalent-inputs-same-matrix", dict(case, form=form), observed=[list(cm.classes), cm.matrix],
                         expected=[names, m])
            if base is None:
                base = cm
        # no classes given: the class order is taken from the outer keys / the row index, and the
        # matrix must be in that order on both axes even when the inner keys / columns are permuted
        rorder = [names[a] for a in rowp]
        mrow = [[mF[a][c] for c in rowp] for a in rowp]
        for form, src in (("dict-no-classes", dict_shuffled), ("dataframe-no-classes", df)):
            ok, cm = guarded(ctx, "construct-" + form, dict(case, form=form), lambda: ConfusionMatrix(matrix=src))
            ctx.tick()
            if ok and (list(cm.classes) != rorder or not _eqf(cm.matrix, mrow)):
                ctx.fail("equivalent-inputs-same-matrix", dict(case, form=form, row_order=rorder,
                                                               col_order=[names[c] for c in colp]),
                         observed=[list(cm.classes), cm.matrix], expected=[rorder, [[float(x) for x in r] for r in mrow]])
        # every class permutation via classes= on dict / DataFrame
        for perm in perms:
            order = [names[a] for a in perm]
            mp = [[mF[a][c] for c in perm] for a in perm]
            for form, src in (("dict", as_dict), ("dataframe", df)):
                ok, cm = guarded(ctx, "reorder-" + form, dict(case, form=form, order=order),
                                 lambda: ConfusionMatrix(matrix=src, classes=order))
                ctx.tick()
                if ok and (list(cm.classes) != order or not _eqf(cm.matrix, mp)):
                    ctx.fail("class-reordering", dict(case, form=form, order=order), observed=[list(cm.classes), cm.matrix],
                             expected=[order, [[float(x) for x in r] for r in mp]])
        if base is not None and i % 5 == 0:
            # the caller keeps updating its own array: per-class metrics must follow the matrix as it is now
            arr_ = np.array(_mat_from_index((i * 7 + 3) % (len(ents) ** (N * N)), N, ents), dtype=float)
            okc, cmx = guarded(ctx, "construct-ndarray", case, lambda: ConfusionMatrix(matrix=arr_, classes=names))
            if okc:
                for nm_ in ("tpr", "fn", "ppv", "one_vs_all"):
                    guarded(ctx, "warm-up", case, lambda: getattr(cmx, nm_)())
                arr_[...] = np.array(m, dtype=float)
                if np.array_equal(np.asarray(cmx.matrix, dtype=float), arr_):  # the object shares the caller's memory
                    check_cm_object(ctx, dict(case, history="queried, then the caller's array was updated in place"), cmx, mF, names)
        if base is not None:
            check_cm_object(ctx, case, base, mF, names)
            ctx.outcome(("mat", N, base.matrix.tobytes()))
            # permutation equivariance of per-class metrics
            perm = perms[(i + 3) % len(perms)]
            order = [names[a] for a in perm]
            cmp_ = ConfusionMatrix(matrix=as_dict, classes=order)
            for nm in ("tpr", "fpr", "ppv", "class_accuracy", "tp", "ton"):
                ok, (v0, v1) = guarded(ctx, "perm-" + nm, dict(case, order=order),
                                       lambda: (np.asarray(getattr(base, nm)(), dtype=float),
                                                np.asarray(getattr(cmp_, nm)(), dtype=float)))
                ctx.tick()
                if ok and not np.array_equal(v0[list(perm)], v1, equal_nan=True):
                    ctx.fail("per-class-metric-permutation-equivariant", dict(case, metric=nm, order=order), observed=v1,
                             expected=v0[list(perm)])
    # stacked arrays in leading shapes: results equal per-matrix results
    idxs = item["idxs"]
    for shape in [tuple(s) for s in b["leading_shapes"]]:
        if not shape:
            continue
        size = int(np.prod(shape))
        pick = [idxs[(k * 3) % len(idxs)] for k in range(size)]
        arr = np.array([_mat_from_index(i, N, ents) for i in pick], dtype=int).reshape(shape + (N, N))
        case = {"kind": "stacked", "N": N, "leading_shape": list(shape), "first_index": pick[:1]}
        ctx.state()
        ok, cm = guarded(ctx, "construct-stacked", case, lambda: ConfusionMatrix(matrix=arr))
        if not ok:
            continue
        singles = [ConfusionMatrix(matrix=np.array(_mat_from_index(i, N, ents))) for i in pick]
        for nm in ("one_vs_all", "tpr", "fnr", "ppv", "topr", "class_accuracy", "accuracy", "tpr_ci", "pop"):
            def call(o):
                if nm == "one_vs_all":
                    return o.one_vs_all().matrix
                return getattr(o, nm)()
            ok, v = guarded(ctx, "stacked-" + nm, case, call, cm)
            ctx.tick()
            if not ok:
                continue
            v = np.asarray(v, dtype=float)
            want = np.array([np.asarray(call(o), dtype=float) for o in singles])
            tail = want.shape[1:] if size else np.asarray(call(ConfusionMatrix(matrix=np.zeros((N, N), dtype=int))), dtype=float).shape
            want = want.reshape(shape + tuple(tail))
            if v.shape != want.shape:
                ctx.fail("stacked-shape", dict(case, metric=nm), observed=list(v.shape), expected=list(want.shape))
            elif not np.array_equal(v, want, equal_nan=True):
                ctx.fail("stacked-equals-per-matrix", dict(case, metric=nm), observed=v, expected=want)
            if nm in ("tpr", "fnr", "ppv", "topr", "class_accuracy", "tpr_ci") and v.shape == want.shape:
                ok, dct = guarded(ctx, "stacked-as-dict-" + nm, case, lambda: getattr(cm, nm)(as_dict=True))
                ctx.tick()
                if ok:
                    ax = -2 if nm.endswith("_ci") else -1
                    for j, c in enumerate(list(cm.classes)):
                        wj = np.take(want, j, axis=ax)
                        got = np.asarray(dct.get(c), dtype=float) if c in dct else None
                        if got is None or got.shape != wj.shape or not np.array_equal(got, wj, equal_nan=True):
                            ctx.fail("stacked-as-dict-agrees", dict(case, metric=nm, cls=j),
                                     observed=None if got is None else got, expected=wj)
                            break
    ctx.sample({"kind": "matrix", "N": N, "first": _mat_from_index(item["idxs"][0], N, ents), "count": len(item["idxs"])})
    return None


def _m_u8_weights(rec):
    """D19: the matrix has the dtype of the weights (documented), so totals of uint8 weights wrap modulo 256."""
    if rec["clause"] != "entry-is-total-weight" or rec["case"].get("weights_dtype") != "uint8":
        return False
    try:
        obs, exp = np.asarray(rec["observed"], dtype=float), np.asarray(rec["expected"], dtype=float)
        return obs.shape == exp.shape and bool(np.all((exp - obs) % 256 == 0))
    except Exception:
        return False


MATCHERS = {"c05_uint8_weights_wrap": _m_u8_weights}

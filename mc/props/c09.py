"""C09 - virtual easy samples behave exactly like materialised extreme scores."""

from __future__ import annotations

import math
from fractions import Fraction as F

import numpy as np

from mc import ordertypes as ot
from mc.harness import guarded
from mc.props.thresh_common import METRICS, relevant

ID = "C09"
TITLE = "Virtual easy samples behave exactly like materialised extreme scores"
ENGINE = "order-type-explorer"
RULE = (
    "state = (order type, concretisation, cfg, (k,m) easy counts, materialisation variant); transition = one pair "
    "of API calls on the virtual and on the materialised object compared with each other (cm at a threshold, "
    "auc over an interval, threshold_at_* at a target); non-trivial = k+m>0 and, for thresholds-at-targets, the "
    "materialised threshold lies in the scored range (clause applicable); distinct by construction"
)
ASSUMPTIONS = [
    "materialised extremes are placed 10.. units beyond the scores, either all distinct or all tied",
    "thresholds compared to 4 ulp + 1e-9 relative; AUC to 1e-9",
    "targets from the quarter grid of the population size, method linear",
]
INTERVALS = [(0.0, 1.0), (0.0, 0.5), (0.5, 1.0), (0.25, 0.75), (0.1, 0.2), (1 / 3, 2 / 3), (0.3, 0.3)]


def bounds(tier):
    if tier == "quick":
        km = [(k, m) for k in (1, 2, 3) for m in (0, 1, 2)] + [(0, 1), (0, 2)]
        return {"max_pos": 3, "max_neg": 3, "km": km, "grids": ["irregular", "dyadic"], "intervals": INTERVALS}
    km = [(k, m) for k in range(5) for m in range(5) if k + m > 0]
    return {"max_pos": 4, "max_neg": 4, "km": km, "grids": ["irregular", "dyadic", "int"], "intervals": INTERVALS}


LARGE = [(200000, 150000), (70001, 0), (0, 99999)]


def work(tier, seed):
    b = bounds(tier)
    items = [{"blocks": [list(x) for x in bl], "grid": g}
             for bl in ot.order_types(b["max_pos"], b["max_neg"], 1, 1) for g in b["grids"]]
    # large easy counts: tolerances that are relative to a count only bite there
    for k, m in LARGE:
        for bl in ot.order_types(2, 2, 2, 2, tie_free=True)[:3]:
            items.append({"blocks": [list(x) for x in bl], "grid": "irregular", "large": [k, m]})
    # counts beyond 2^31 / 2^32 cannot be materialised in memory: the materialised data set is represented by counting
    for k, m in HUGE:
        for bl in ot.order_types(2, 2, 1, 1):
            items.append({"blocks": [list(x) for x in bl], "grid": "irregular", "huge": [k, m]})
    return items


HUGE = [(3_000_000_000, 2), (1, 5_000_000_000), (2**31 - 2, 2**31 - 1)]


def _run_huge(item, ctx, seed):
    """The materialised data set holds k (m) extreme scores beyond every threshold asked: its confusion matrix is
    obtained by counting, its AUC from the exact pair count / step area (mc.refs), both over exact integers."""
    from fractions import Fraction as Fr

    from score_analysis import Scores

    from mc import refs

    blocks = [tuple(x) for x in item["blocks"]]
    pos, neg, vals = ot.concretise(blocks, item["grid"], seed)
    T = [t for t in ot.threshold_alphabet(vals) if math.isfinite(t)]
    k, m = item["huge"]
    cross = any(a > 0 and c > 0 for a, c in blocks)
    for cfg in ot.CFGS:
        sc, ec = cfg
        case = {"blocks": item["blocks"], "grid": item["grid"], "pos": pos, "neg": neg, "cfg": cfg, "easy": [k, m],
                "materialised": "by counting"}
        ok, sv = guarded(ctx, "construct-virtual", case, Scores, pos, neg, nb_easy_pos=k, nb_easy_neg=m, score_class=sc, equal_class=ec)
        if not ok:
            continue
        ctx.state()
        ok, mv = guarded(ctx, "cm", case, lambda: sv.cm(np.array(T)).matrix)
        ctx.tick(len(T))
        ctx.nontrivial(len(T))
        if ok:
            want = [refs.ref_cm(pos, neg, t, sc, ec, k, m) for t in T]
            ctx.outcome((cfg, k, m, str(mv.tolist())))
            if mv.tolist() != want:
                j = next(i for i in range(len(T)) if mv[i].tolist() != want[i])
                ctx.fail("cm-virtual-equals-materialised", dict(case, threshold=T[j]), observed=mv[j], expected=want[j])
            for t in T[:: max(1, len(T) // 4)]:
                ok, ms = guarded(ctx, "cm-scalar", dict(case, threshold=t), lambda: sv.cm(t).matrix)
                ctx.tick()
                if ok and ms.tolist() != refs.ref_cm(pos, neg, t, sc, ec, k, m):
                    ctx.fail("cm-virtual-equals-materialised", dict(case, threshold=t, scalar=True), observed=ms,
                             expected=refs.ref_cm(pos, neg, t, sc, ec, k, m))
            for name in ("tpr", "fnr", "tnr", "fpr", "topr", "tonr"):
                ok, rv = guarded(ctx, "rate", dict(case, rate=name), lambda: np.asarray(getattr(sv, name)(np.array(T)), dtype=float))
                ctx.tick(len(T))
                if ok:
                    for j, t in enumerate(T):
                        w = refs.ref_rates(want[j])[name]
                        if not refs.same_float(float(rv[j]), w):
                            ctx.fail("rate-virtual-equals-materialised", dict(case, rate=name, threshold=t), observed=float(rv[j]),
                                     expected=None if w is None else float(w))
                            break
        ok, a = guarded(ctx, "auc", case, lambda: float(sv.auc()))
        ctx.tick()
        wa = float(refs.ref_mann_whitney(pos, neg, sc, k, m))
        if ok and not abs(a - wa) <= 1e-9:
            ctx.fail("auc-virtual-equals-materialised", dict(case, lower=0.0, upper=1.0), observed=a, expected=wa)
        if not cross:
            for lo_i, hi_i in ((Fr(0), Fr(1, 2)), (Fr(1, 4), Fr(3, 4)), (Fr(1, 2), Fr(1))):
                ok, a = guarded(ctx, "auc", dict(case, lower=str(lo_i), upper=str(hi_i)), lambda: float(sv.auc(float(lo_i), float(hi_i))))
                ctx.tick()
                wa = float(refs.ref_step_area(pos, neg, sc, k, m, lo_i, hi_i))
                if ok and not abs(a - wa) <= 1e-9:
                    ctx.fail("auc-virtual-equals-materialised", dict(case, lower=str(lo_i), upper=str(hi_i)), observed=a, expected=wa)
    ctx.sample({"blocks": item["blocks"], "huge": item["huge"]})


def run(item, ctx, tier, seed):
    from score_analysis import Scores

    if "huge" in item:
        return _run_huge(item, ctx, seed)
    b = bounds(tier)
    blocks = [tuple(x) for x in item["blocks"]]
    pos, neg, vals = ot.concretise(blocks, item["grid"], seed)
    T = [t for t in ot.threshold_alphabet(vals) if math.isfinite(t)]
    Tarr = np.array(T)
    lo, hi = min(vals), max(vals)
    scale = max(abs(lo), abs(hi), 1.0)
    km_menu = [tuple(x) for x in b["km"]] if "large" not in item else [tuple(item["large"])]
    for cfg in ot.CFGS:
        sc, ec = cfg
        for k, m in km_menu:
            for variant in ("distinct", "tied"):
                if variant == "tied" and max(k, m) < 2:
                    continue
                if "large" in item and variant == "distinct":
                    continue
                if "large" in item:
                    up, dn = np.full(max(k, m), hi + 10.0), np.full(max(k, m), lo - 10.0)
                    P, N = np.array(pos, dtype=float), np.array(neg, dtype=float)
                    if sc == "pos":
                        mpos, mneg = np.concatenate([P, up[:k]]), np.concatenate([N, dn[:m]])
                    else:
                        mpos, mneg = np.concatenate([P, dn[:k]]), np.concatenate([N, up[:m]])
                else:
                    up = [hi + 10 + (i if variant == "distinct" else 0) for i in range(max(k, m))]
                    dn = [lo - 10 - (i if variant == "distinct" else 0) for i in range(max(k, m))]
                    if sc == "pos":
                        mpos, mneg = pos + up[:k], neg + dn[:m]
                    else:
                        mpos, mneg = pos + dn[:k], neg + up[:m]
                case = {"blocks": item["blocks"], "grid": item["grid"], "pos": pos, "neg": neg, "cfg": cfg,
                        "easy": [k, m], "materialised_pos": mpos if "large" not in item else f"pos + {k} extremes",
                        "materialised_neg": mneg if "large" not in item else f"neg + {m} extremes"}
                ok, sv = guarded(ctx, "construct-virtual", case, Scores, pos, neg, nb_easy_pos=k, nb_easy_neg=m,
                                 score_class=sc, equal_class=ec)
                ok2, sm = guarded(ctx, "construct-materialised", case, Scores, mpos, mneg, score_class=sc,
                                  equal_class=ec)
                if not (ok and ok2):
                    continue
                if variant == "distinct" and "large" not in item and item["grid"] == "irregular":
                    # declare other easy counts first, query, then assign k and m: still the same virtual object
                    okw, sw_ = guarded(ctx, "construct-virtual", case, Scores, pos, neg, nb_easy_pos=k + 2, nb_easy_neg=m + 3,
                                       score_class=sc, equal_class=ec)
                    if okw:
                        for mt_ in METRICS:
                            guarded(ctx, "warm-up", case, lambda: getattr(sw_, "threshold_at_" + mt_)(0.4))
                        guarded(ctx, "warm-up", case, sw_.eer)
                        sw_.nb_easy_pos, sw_.nb_easy_neg = k, m
                        for mt_ in METRICS:
                            tg_ = np.array([0.1, 0.35, 0.5, 0.8])
                            okc, (ta_, tb_) = guarded(ctx, "threshold", dict(case, metric=mt_), lambda: (
                                np.asarray(getattr(sw_, "threshold_at_" + mt_)(tg_), dtype=float),
                                np.asarray(getattr(sv, "threshold_at_" + mt_)(tg_), dtype=float)))
                            ctx.tick()
                            if okc and not np.array_equal(ta_, tb_):
                                ctx.fail("virtual-object-follows-assigned-easy-counts", dict(case, metric=mt_), observed=ta_, expected=tb_)
                                break
                ctx.state()
                # ---- confusion matrices at thresholds between the materialised extremes
                ok, (mv, mm) = guarded(ctx, "cm", case, lambda: (sv.cm(Tarr).matrix, sm.cm(Tarr).matrix))
                ctx.tick(len(T))
                ctx.nontrivial(len(T))
                if ok:
                    ctx.outcome((cfg, k, m, mv.tobytes()))
                    if not np.array_equal(mv, mm):
                        j = int(np.argmax(np.any(mv != mm, axis=(1, 2))))
                        ctx.fail("cm-virtual-equals-materialised", dict(case, threshold=T[j]), observed=mv[j],
                                 expected=mm[j],
                                 snippet=("from score_analysis import Scores\n"
                                          f"v = Scores({pos!r}, {neg!r}, nb_easy_pos={k}, nb_easy_neg={m}, "
                                          f"score_class={sc!r}, equal_class={ec!r})\n"
                                          f"w = Scores({mpos!r}, {mneg!r}, score_class={sc!r}, equal_class={ec!r})\n"
                                          f"print(v.cm({T[j]!r}).matrix, w.cm({T[j]!r}).matrix)\n"))
                # ---- AUC
                for lo_i, hi_i in b["intervals"]:
                    for kw in ({}, {"y_axis": "fnr"}, {"x_axis": "tnr"}):
                        ok, (av, am) = guarded(ctx, "auc", dict(case, lower=lo_i, upper=hi_i, **kw),
                                               lambda: (float(sv.auc(lo_i, hi_i, **kw)), float(sm.auc(lo_i, hi_i, **kw))))
                        ctx.tick()
                        ctx.nontrivial()
                        if ok and not abs(av - am) <= 1e-9:
                            ctx.fail("auc-virtual-equals-materialised", dict(case, lower=lo_i, upper=hi_i, **kw),
                                     observed=av, expected=am)
                # ---- thresholds at targets
                if variant == "tied" and "large" not in item:
                    continue
                for metric in METRICS:
                    rel = relevant(metric, pos, neg)
                    n = len(mpos) if metric in ("tpr", "fnr") else len(mneg) if metric in ("tnr", "fpr") else len(mpos) + len(mneg)
                    if "large" in item:
                        # targets that land among the few scored samples, on and off the count grid
                        hard = len(rel)
                        base = {"tpr": k, "fnr": 0, "tnr": m, "fpr": 0, "topr": k if sc == "pos" else k, "tonr": m}[metric]
                        targets = np.array(sorted({(base + j + f) / n for j in range(hard + 1) for f in (0.0, 0.1, 0.5, 0.9)
                                                   if 0 <= (base + j + f) / n <= 1}))
                    else:
                        targets = np.array(sorted(ot.target_alphabet(n, seed)))
                    ok, (tv, tm) = guarded(
                        ctx, "threshold", dict(case, metric=metric),
                        lambda: (np.asarray(getattr(sv, "threshold_at_" + metric)(targets), dtype=float),
                                 np.asarray(getattr(sm, "threshold_at_" + metric)(targets), dtype=float)))
                    ctx.tick(len(targets))
                    if not ok:
                        continue
                    applicable = (tm >= rel[0]) & (tm <= rel[-1])
                    ctx.nontrivial(int(applicable.sum()))
                    ulp = math.nextafter(scale, math.inf) - scale
                    tol = 4 * ulp + 1e-9 * scale
                    bad = applicable & (np.abs(tv - tm) > tol)
                    if bad.any():
                        j = int(np.argmax(bad))
                        ctx.fail("threshold-virtual-equals-materialised",
                                 dict(case, metric=metric, r=float(targets[j])), observed=float(tv[j]),
                                 expected=float(tm[j]),
                                 snippet=("from score_analysis import Scores\n"
                                          f"v = Scores({pos!r}, {neg!r}, nb_easy_pos={k}, nb_easy_neg={m}, "
                                          f"score_class={sc!r}, equal_class={ec!r})\n"
                                          f"w = Scores({mpos!r}, {mneg!r}, score_class={sc!r}, equal_class={ec!r})\n"
                                          f"print(v.threshold_at_{metric}({float(targets[j])!r}), "
                                          f"w.threshold_at_{metric}({float(targets[j])!r}))\n"))
    ctx.sample({"blocks": item["blocks"], "grid": item["grid"], "pos": pos, "neg": neg, "km": b["km"][:4]})

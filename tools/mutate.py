#!/venv/bin/python
"""
Mutation campaign driver (DESIGN.md §6).

    tools/mutate.py run [--tests] [--props C01,C02] [--only name] [--tier quick]
    tools/mutate.py seeded [--tier quick]       run every /verif/seeded/*/patch.diff

A mutant is a dict {name, props, file, old, new[, count]} in mutants/*.json: one textual
replacement in a copy of /repo made under /tmp (removed afterwards).  For each mutant the
quick checks of the named properties run with VERIF_REPO pointing at the copy; with --tests
the baseline suite runs on the copy too (a mutant the suite kills is not "realistic").
Results are appended to mutants/results.json.
"""
import argparse
import glob
import json
import os
import shutil
import subprocess
import sys
import tempfile
import time
from concurrent.futures import ThreadPoolExecutor

HERE = os.path.dirname(os.path.dirname(os.path.abspath(__file__)))


def make_copy():
    d = tempfile.mkdtemp(prefix="sa_mut_", dir="/tmp")
    subprocess.check_call(
        ["rsync", "-a", "--exclude", ".git", "--exclude", "__pycache__", "--exclude", "docs", "/repo/", d + "/"]
    )
    return d


def run_tests(d):
    r = subprocess.run(
        ["/venv/bin/python", "-m", "pytest", "-q", "-x", "-p", "no:cacheprovider", "--timeout=900"],
        cwd=d, capture_output=True, text=True,
    )
    tail = (r.stdout.strip().splitlines() or [""])[-1]
    return r.returncode == 0, tail


def run_check(d, pid, tier, jobs):
    env = dict(os.environ, VERIF_REPO=d, VERIF_JOBS=str(jobs), VERIF_NOEVIDENCE="1")
    t = time.time()
    r = subprocess.run([os.path.join(HERE, "check"), pid, tier], cwd=HERE, env=env, capture_output=True, text=True)
    viol = [l for l in r.stdout.splitlines() if l.startswith("VIOLATION")]
    clause = ""
    for l in r.stdout.splitlines():
        if l.startswith("  clause="):
            clause = l.strip()[:160]
            break
    return r.returncode, len(viol), clause, round(time.time() - t, 1), r.stdout[-600:] if r.returncode == 2 else ""


def one(m, args):
    d = make_copy()
    try:
        if "patch" in m:
            r = subprocess.run(["git", "apply", "--unsafe-paths", "--directory", d, m["patch"]], cwd="/",
                               capture_output=True, text=True)
            if r.returncode:
                r = subprocess.run(["patch", "-p1", "-d", d, "-i", m["patch"]], capture_output=True, text=True)
                if r.returncode:
                    return dict(name=m["name"], error="patch failed: " + r.stderr[-300:] + r.stdout[-300:])
        else:
            p = os.path.join(d, m["file"])
            s = open(p).read()
            cnt = s.count(m["old"])
            if cnt != m.get("count", 1):
                return dict(name=m["name"], error=f"old text occurs {cnt}x")
            s = s.replace(m["old"], m["new"])
            open(p, "w").write(s)
        res = dict(name=m["name"], props={})
        if args.tests:
            ok, tail = run_tests(d)
            res["tests_pass"] = ok
            res["tests_tail"] = tail
        for pid in m["props"]:
            if args.props and pid not in args.props:
                continue
            if not os.path.exists(os.path.join(HERE, "mc", "props", pid.lower() + ".py")):
                continue
            rc, nv, clause, wall, err = run_check(d, pid, args.tier, args.jobs)
            res["props"][pid] = dict(rc=rc, violations=nv, first=clause, wall=wall)
            if err:
                res["props"][pid]["err"] = err
        return res
    finally:
        shutil.rmtree(d, ignore_errors=True)


def load_mutants():
    out = []
    for f in sorted(glob.glob(os.path.join(HERE, "mutants", "*.json"))):
        if f.endswith("results.json"):
            continue
        out += json.load(open(f))
    return out


def main():
    ap = argparse.ArgumentParser()
    ap.add_argument("cmd", choices=["run", "seeded"])
    ap.add_argument("--tests", action="store_true")
    ap.add_argument("--props", default="")
    ap.add_argument("--only", default="")
    ap.add_argument("--tier", default="quick")
    ap.add_argument("--par", type=int, default=4)
    ap.add_argument("--jobs", type=int, default=4)
    args = ap.parse_args()
    args.props = [p for p in args.props.split(",") if p]
    if args.cmd == "seeded":
        muts = []
        for d in sorted(glob.glob(os.path.join(HERE, "seeded", "*"))):
            meta = os.path.join(d, "meta.json")
            if os.path.exists(meta):
                mj = json.load(open(meta))
                muts.append(dict(name="seeded/" + os.path.basename(d), props=mj["properties"],
                                 patch=os.path.join(d, "patch.diff")))
    else:
        muts = load_mutants()
    if args.only:
        muts = [m for m in muts if args.only in m["name"]]
    if args.props:
        muts = [m for m in muts if set(m["props"]) & set(args.props)]
    results = []
    with ThreadPoolExecutor(args.par) as ex:
        for res in ex.map(lambda m: one(m, args), muts):
            results.append(res)
            if "error" in res:
                print(f"ERROR  {res['name']}: {res['error']}")
                continue
            st = []
            for pid, r in res["props"].items():
                st.append(f"{pid}:{'KILLED' if r['rc'] == 1 else ('HARNESS-ERR' if r['rc'] == 2 else 'survived')}"
                          f"({r['wall']}s)")
            t = "" if "tests_pass" not in res else (" tests=pass" if res["tests_pass"] else " tests=FAIL(" + res["tests_tail"][:60] + ")")
            print(f"{res['name']:45s} {' '.join(st)}{t}")
            for pid, r in res["props"].items():
                if r["rc"] == 1 and r["first"]:
                    print(f"      {r['first'][:150]}")
                if r.get("err"):
                    print("      " + r["err"].replace("\n", "\n      "))
            sys.stdout.flush()
    path = os.path.join(HERE, "mutants", "results.json")
    old = json.load(open(path)) if os.path.exists(path) else {}
    for r in results:
        if "error" in r:
            continue
        e = old.setdefault(r["name"], {})
        e.setdefault("props", {}).update(r["props"])
        for k in ("tests_pass", "tests_tail"):
            if k in r:
                e[k] = r[k]
    json.dump(old, open(path, "w"), indent=1, sort_keys=True)


if __name__ == "__main__":
    main()

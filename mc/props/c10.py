"""C10 - queries are vectorised elementwise, shape-preserving and side-effect free."""

from __future__ import annotations

import itertools
import math
import warnings

import numpy as np

from mc import opgraph
from mc import ordertypes as ot
from mc.harness import guarded

ID = "C10"
TITLE = "Queries are vectorised elementwise, shape-preserving and side-effect free"
ENGINE = "op-sequence-graph"
TECHNIQUE = ("explicit-state BFS over operation sequences on live objects to a fixpoint (differential oracle vs fresh "
             "objects), plus exhaustive shape/layout x order-type enumeration of every vectorised query vs its scalar calls")
RULE = (
    "shape part: state = (order type, cfg, easy counts, array shape X, memory layout, container kind); transition "
    "= one vectorised call compared element by element (bit for bit, NaN-equal) with the scalar calls. history "
    "part: state = canonical snapshot of a live object (arrays, flags, caches, any attribute a query adds) plus "
    "the caller-owned arrays; transition = one public query; BFS to a fixpoint. non-trivial = array with >= 2 "
    "distinct elements in a non-trivial layout (ndim >= 2 or non-contiguous), resp. every history transition whose "
    "result is not empty/NaN; distinct by construction"
)
ASSUMPTIONS = [
    "shapes (),(1,),(3,),(0,),(2,2),(2,0,3),(1,1,1),(2,3,2); layouts C, Fortran, transposed view, strided view; "
    "containers ndarray / nested list / 0-d array / Python and NumPy scalars",
    "event alphabet of the history part: ~100 public queries per object with fixed argument menus; 'any sequence "
    "of calls' is covered to a fixpoint over that alphabet (any length), not for other arguments",
    "buffer-reuse histories (query, mutate the caller's own array in place, query again) are run explicitly",
]
SHAPES = [(), (1,), (3,), (0,), (2, 2), (2, 0, 3), (1, 1, 1), (2, 3, 2)]
RATES = ["tpr", "fnr", "tnr", "fpr", "topr", "tonr"]
ALIAS = {"tar": "tpr", "frr": "fnr", "trr": "tnr", "far": "fpr", "acceptance_rate": "topr", "rejection_rate": "tonr"}
SETTERS = RATES + list(ALIAS)


def bounds(tier):
    if tier == "quick":
        return {"max_pos": 2, "max_neg": 2, "easy": [[0, 0], [1, 2]], "shapes": [list(s) for s in SHAPES],
                "layouts": ["C", "F", "T", "strided"], "history_objects": 8}
    return {"max_pos": 3, "max_neg": 3, "easy": [[0, 0], [1, 2], [3, 0]], "shapes": [list(s) for s in SHAPES] + [[4, 1, 2]],
            "layouts": ["C", "F", "T", "strided"], "history_objects": 8}


def work(tier, seed):
    b = bounds(tier)
    items = [{"kind": "history", "which": k} for k in range(b["history_objects"])]
    for bl in ot.order_types(b["max_pos"], b["max_neg"]):
        items.append({"kind": "shapes", "blocks": [list(x) for x in bl]})
    items.append({"kind": "pointwise"})
    for k in range(4):
        items.append({"kind": "large_arrays", "which": k})
    items.append({"kind": "scalar_kinds"})
    items.append({"kind": "long_history"})
    # pointwise_cm with (scores x thresholds) beyond 2^24 and 2^25 cells, in sizes that are no multiples of a power of two
    for ns, nt in ((5000, 4096), (70001, 300), (33, 600011)) + (((9001, 8192),) if tier != "quick" else ()):
        items.append({"kind": "pointwise_large", "n_scores": ns, "n_thresholds": nt})
    return items


def fill(shape, alphabet, layout, offset=0):
    """Array of `shape` filled cyclically from alphabet in the requested memory layout."""
    size = int(np.prod(shape)) if shape else 1
    flat = np.array([alphabet[(offset + i) % len(alphabet)] for i in range(size)], dtype=float)
    arr = flat.reshape(shape)
    if layout == "F":
        return np.asfortranarray(arr)
    if layout == "T" and arr.ndim >= 2:
        return np.ascontiguousarray(arr.T).T  # same values, transposed memory
    if layout == "strided" and arr.ndim >= 1 and arr.shape[-1] > 0:
        big = np.empty(arr.shape[:-1] + (arr.shape[-1] * 2,), dtype=float)
        big[..., ::2] = arr
        big[..., 1::2] = -777.0
        return big[..., ::2]
    return arr


def _same(a, b):
    if isinstance(a, float) and isinstance(b, float):
        return a == b or (math.isnan(a) and math.isnan(b))
    return np.array_equal(np.asarray(a), np.asarray(b), equal_nan=True)


def check_elementwise(ctx, case, name, vec, arr, scalar_fn, tail=()):
    """vec = f(arr); every element must equal f(scalar) bit for bit; shape X + tail."""
    v = np.asarray(vec)
    if v.shape != tuple(arr.shape) + tuple(tail):
        ctx.fail("result-shape", dict(case, query=name), observed=list(v.shape), expected=list(arr.shape) + list(tail))
        return
    for idx in np.ndindex(*arr.shape):
        s = scalar_fn(float(arr[idx]))
        if not np.array_equal(np.asarray(v[idx]), np.asarray(s), equal_nan=True):
            ctx.fail("element-equals-scalar-call", dict(case, query=name, index=list(idx), argument=float(arr[idx])),
                     observed=v[idx], expected=s)
            return


def run(item, ctx, tier, seed):
    warnings.simplefilter("ignore")
    b = bounds(tier)
    if item["kind"] == "history":
        return _run_history(item, ctx)
    if item["kind"] == "pointwise":
        return _run_pointwise(ctx, b)
    if item["kind"] == "large_arrays":
        return _run_large_arrays(item, ctx, tier)
    if item["kind"] == "scalar_kinds":
        return _run_scalar_kinds(ctx)
    if item["kind"] == "long_history":
        return _run_long_history(ctx, tier)
    if item["kind"] == "pointwise_large":
        return _run_pointwise_large(item, ctx)
    from score_analysis import Scores

    blocks = [tuple(x) for x in item["blocks"]]
    pos, neg, vals = ot.concretise(blocks, "irregular", seed)
    T = ot.threshold_alphabet(vals)
    T = [t for t in T] + [float("nan")]  # a NaN threshold is answered the same way in array and scalar calls
    shapes = [tuple(s) for s in b["shapes"]]
    first_classes = None
    for ci_, cfg in enumerate(ot.CFGS):
        for ep, en in [tuple(e) for e in b["easy"]]:
            pin_arr, nin_arr = np.array(pos[::-1], dtype=float), np.array(neg[::-1], dtype=float)
            s = Scores(pin_arr, nin_arr, nb_easy_pos=ep, nb_easy_neg=en, score_class=cfg[0], equal_class=cfg[1])
            base = {"pos": pos, "neg": neg, "cfg": list(cfg), "easy": [ep, en]}
            npop = {"tpr": len(pos), "fnr": len(pos), "tnr": len(neg), "fpr": len(neg), "topr": len(pos) + len(neg),
                    "tonr": len(pos) + len(neg)}
            targets = [-0.25, 0.0, 0.2, 1.0 / 3.0, 0.5, 0.75, 1.0, 1.25]
            for si, shape in enumerate(shapes):
                for layout in b["layouts"]:
                    if layout != "C" and len(shape) < 1:
                        continue
                    if layout in ("F", "T") and len(shape) < 2:
                        continue
                    arr = fill(shape, T, layout, offset=si)
                    before = arr.copy()
                    case = dict(base, shape=list(shape), layout=layout)
                    ctx.state()
                    if arr.size >= 2 and (arr.ndim >= 2 or layout != "C"):
                        ctx.nontrivial()
                    ok, cmobj = guarded(ctx, "cm", case, lambda: s.cm(arr))
                    ctx.tick()
                    m = cmobj.matrix if ok else None
                    if ok:
                        check_elementwise(ctx, case, "cm", m, arr, lambda t: s.cm(t).matrix, (2, 2))
                        # the returned object is the caller's: whatever is written into it must not reach later results
                        cls0 = np.array(cmobj.classes, copy=True)
                        if first_classes is None:
                            first_classes = cls0.copy()
                        elif not np.array_equal(cls0, first_classes):
                            ctx.fail("returned-object-is-the-callers", dict(case, attribute="classes"), observed=cls0, expected=first_classes)
                        try:
                            cmobj.classes[...] = cmobj.classes[::-1].copy()
                            if isinstance(cmobj.matrix, np.ndarray) and cmobj.matrix.flags.writeable and cmobj.matrix.size:
                                cmobj.matrix[...] = -7
                        except (ValueError, TypeError):
                            pass
                    for r in RATES:
                        ok, v = guarded(ctx, r, case, lambda: getattr(s, r)(arr))
                        ctx.tick()
                        if ok:
                            if arr.ndim == 0 and not isinstance(v, float):
                                ctx.fail("scalar-in-scalar-out", dict(case, query=r), observed=type(v).__name__, expected="float")
                            check_elementwise(ctx, case, r, v, arr, lambda t, r=r: getattr(s, r)(t))
                    for al, orig in ALIAS.items():
                        ok, v = guarded(ctx, al, case, lambda: getattr(s, al)(arr))
                        ctx.tick()
                        if ok and not _same(v, getattr(s, orig)(arr)):
                            ctx.fail("alias-identical", dict(case, alias=al), observed=v, expected=getattr(s, orig)(arr))
                    if not np.array_equal(arr, before, equal_nan=True):
                        ctx.fail("caller-array-unchanged", dict(case, query="cm/rates"), observed=arr, expected=before)
                    # threshold setting on target arrays of the same shape/layout
                    tg = fill(shape, targets, layout, offset=si)
                    tb = tg.copy()
                    for st in SETTERS:
                        base_st = ALIAS.get(st, st)
                        if npop[base_st] == 0:
                            continue
                        for method in ("linear", "lower", "higher") if st in RATES else ("linear",):
                            ok, v = guarded(ctx, "threshold_at_" + st, dict(case, method=method),
                                            lambda: getattr(s, "threshold_at_" + st)(tg, method=method))
                            ctx.tick()
                            if not ok:
                                continue
                            check_elementwise(ctx, dict(case, method=method), "threshold_at_" + st, v, tg,
                                              lambda r_, st=st, method=method: getattr(s, "threshold_at_" + st)(r_, method=method))
                            if st in ALIAS and not _same(v, getattr(s, "threshold_at_" + base_st)(tg, method=method)):
                                ctx.fail("alias-identical", dict(case, alias="threshold_at_" + st), observed=v,
                                         expected=getattr(s, "threshold_at_" + base_st)(tg, method=method))
                    if not np.array_equal(tg, tb, equal_nan=True):
                        ctx.fail("caller-array-unchanged", dict(case, query="threshold_at_*"), observed=tg, expected=tb)
            # containers: nested list, 0-d array, Python / NumPy scalars
            nested = [[T[0], T[1 % len(T)]], [T[2 % len(T)], T[-1]]]
            for cname, arg in (("nested-list", nested), ("0-d-array", np.array(T[1 % len(T)])), ("python-float", float(T[1 % len(T)])),
                               ("python-int", 1), ("np.float64", np.float64(T[1 % len(T)])), ("tuple", (T[0], T[-1]))):
                case = dict(base, container=cname)
                ctx.state()
                arr = np.asarray(arg, dtype=float)
                ok, m = guarded(ctx, "cm", case, lambda: s.cm(arg).matrix)
                ctx.tick()
                if ok:
                    check_elementwise(ctx, case, "cm", m, arr, lambda t: s.cm(t).matrix, (2, 2))
                for r in RATES:
                    ok, v = guarded(ctx, r, case, lambda: getattr(s, r)(arg))
                    ctx.tick()
                    if ok:
                        if arr.ndim == 0 and not isinstance(v, float):
                            ctx.fail("scalar-in-scalar-out", dict(case, query=r), observed=type(v).__name__, expected="float")
                        check_elementwise(ctx, case, r, v, arr, lambda t, r=r: getattr(s, r)(t))
                if pos and cname in ("python-float", "python-int", "np.float64"):
                    r_arg = {"python-float": 0.5, "python-int": 1, "np.float64": np.float64(0.5)}[cname]
                    ok, v = guarded(ctx, "threshold_at_tpr", case, lambda: s.threshold_at_tpr(r_arg))
                    ctx.tick()
                    if ok and not isinstance(v, float):
                        ctx.fail("scalar-in-scalar-out", dict(case, query="threshold_at_tpr"), observed=type(v).__name__, expected="float")
            # buffer reuse: query, mutate the caller's array in place, query again
            if len(T) >= 3:
                for r in ("tpr", "fpr", "tonr"):
                    buf = np.array(T[:6] if len(T) >= 6 else T, dtype=float)
                    case = dict(base, history=[f"{r}(buf)", "buf[:] = buf[::-1]", f"{r}(buf)", f"cm(buf)"])
                    ctx.state()
                    ctx.nontrivial()
                    ok, _ = guarded(ctx, "buffer-reuse", case, lambda: getattr(s, r)(buf))
                    buf[:] = buf[::-1].copy()
                    ok2, v2 = guarded(ctx, "buffer-reuse", case, lambda: getattr(s, r)(buf))
                    ok3, m3 = guarded(ctx, "buffer-reuse", case, lambda: s.cm(buf).matrix)
                    ctx.tick(3)
                    if ok2:
                        check_elementwise(ctx, case, r + "-after-in-place-update", v2, buf, lambda t, r=r: getattr(s, r)(t))
                    if ok3:
                        check_elementwise(ctx, case, "cm-after-in-place-update", m3, buf, lambda t: s.cm(t).matrix, (2, 2))
                    buf += 0.25
                    ok4, v4 = guarded(ctx, "buffer-reuse", case, lambda: getattr(s, r)(buf))
                    ctx.tick()
                    if ok4:
                        check_elementwise(ctx, case, r + "-after-in-place-shift", v4, buf, lambda t, r=r: getattr(s, r)(t))
            # a default-constructed object (is_sorted=False) holds its own sorted copy: what the caller does to its
            # arrays afterwards must not change the object's answers (sorted and unsorted inputs alike)
            for order in ("sorted", "unsorted"):
                ca = np.array(sorted(pos) if order == "sorted" else pos[::-1], dtype=float)
                cb = np.array(sorted(neg) if order == "sorted" else neg[::-1], dtype=float)
                so = Scores(ca, cb, nb_easy_pos=ep, nb_easy_neg=en, score_class=cfg[0], equal_class=cfg[1])
                Tq = np.array([t for t in T if t == t])
                before = (so.cm(Tq).matrix.copy(), np.asarray(so.pos).copy(), np.asarray(so.neg).copy())
                if ca.size:
                    ca[...] = -ca[::-1] + 3.0
                if cb.size:
                    cb[...] = cb[::-1] * 2.0 - 1.0
                after = (so.cm(Tq).matrix, np.asarray(so.pos), np.asarray(so.neg))
                ctx.tick()
                if not all(np.array_equal(x, y) for x, y in zip(before, after)):
                    ctx.fail("object-independent-of-callers-arrays-after-construction", dict(base, input_order=order),
                             observed=[after[1], after[2]], expected=[before[1], before[2]])
            # the score arrays the caller passed to the constructor are the caller's: unchanged after everything above
            if pin_arr.tolist() != [float(v) for v in pos[::-1]] or nin_arr.tolist() != [float(v) for v in neg[::-1]]:
                ctx.fail("caller-array-unchanged", dict(base, argument="constructor score arrays"),
                         observed=[pin_arr, nin_arr], expected=[pos[::-1], neg[::-1]])
            ctx.outcome((tuple(map(tuple, blocks)), cfg, ep, en))
    ctx.sample({"kind": "shapes", "pos": pos, "neg": neg, "shapes": b["shapes"], "layouts": b["layouts"]})
    return None


def _ref_object():
    from score_analysis import Scores

    pos = [((i * 37) % 101) / 8.0 for i in range(23)]
    neg = [((i * 53 + 7) % 89) / 8.0 - 2.0 for i in range(31)]
    return pos, neg


def _run_large_arrays(item, ctx, tier):
    """Threshold / target arrays beyond 2^15 and 2^16 elements in every memory layout (code paths that switch on size)."""
    from mc import refs
    from score_analysis import Scores

    pos, neg = _ref_object()
    spos, sneg = sorted(pos), sorted(neg)
    cfg = ot.CFGS[item["which"]]
    s = Scores(pos, neg, nb_easy_pos=1, nb_easy_neg=2, score_class=cfg[0], equal_class=cfg[1])
    shapes = [(200, 180), (3, 150, 80), (2 ** 16 + 8,), (257, 257)] + ([(1100, 1000)] if tier != "quick" else [])
    alphabet = sorted(set(pos + neg))
    alphabet = [v + d for v in alphabet for d in (0.0, 0.0625)] + [-100.0, 100.0]
    held = []
    for si, shape in enumerate(shapes):
        for layout in ("C", "F", "T", "strided"):
            if layout in ("F", "T") and len(shape) < 2:
                continue
            size = int(np.prod(shape))
            flat = np.array(alphabet, dtype=float)[(np.arange(size) * 7 + si) % len(alphabet)]
            arr = flat.reshape(shape)
            if layout == "F":
                arr = np.asfortranarray(arr)
            elif layout == "T":
                arr = np.ascontiguousarray(arr.T).T
            elif layout == "strided":
                big = np.full(shape[:-1] + (shape[-1] * 2,), -777.0)
                big[..., ::2] = arr
                arr = big[..., ::2]
            before = arr.copy()
            case = {"kind": "large_arrays", "shape": list(shape), "layout": layout, "cfg": list(cfg), "n_pos": len(pos), "n_neg": len(neg)}
            ctx.state()
            ctx.nontrivial()
            ok, m = guarded(ctx, "cm", case, lambda: s.cm(arr).matrix)
            ctx.tick(size)
            # results the caller still holds from the previous (same-shaped or not) calls must not have moved
            for hname, harr, hsnap in held:
                if not np.array_equal(harr, hsnap, equal_nan=True):
                    ctx.fail("returned-result-not-overwritten-by-later-calls", dict(case, held=hname), observed="changed", expected="unchanged")
            held = held[-3:]
            if ok:
                held.append((f"cm{list(shape)}/{layout}", m, np.array(m, copy=True)))
            if ok:
                if m.shape != shape + (2, 2):
                    ctx.fail("result-shape", dict(case, query="cm"), observed=list(m.shape), expected=list(shape) + [2, 2])
                else:
                    mf = m.reshape(size, 2, 2)
                    cache = {}
                    for k in range(size):
                        t = float(flat[k])
                        if t not in cache:
                            cache[t] = refs.ref_cm_sorted(spos, sneg, t, cfg[0], cfg[1], 1, 2)
                        if mf[k].tolist() != cache[t]:
                            ctx.fail("element-equals-scalar-call", dict(case, query="cm", index=list(np.unravel_index(k, shape)), argument=t),
                                     observed=mf[k], expected=cache[t])
                            break
            for r in ("tpr", "fpr", "tonr"):
                ok, v = guarded(ctx, r, case, lambda: np.asarray(getattr(s, r)(arr)))
                ctx.tick(size)
                if ok:
                    held.append((f"{r}{list(shape)}/{layout}", v, np.array(v, copy=True)))
                if ok:
                    if v.shape != shape:
                        ctx.fail("result-shape", dict(case, query=r), observed=list(v.shape), expected=list(shape))
                        continue
                    vf = v.reshape(size)
                    sc_cache = {}
                    for k in range(0, size, 1):
                        t = float(flat[k])
                        if t not in sc_cache:
                            sc_cache[t] = getattr(s, r)(t)
                        if not (vf[k] == sc_cache[t]):
                            ctx.fail("element-equals-scalar-call", dict(case, query=r, index=list(np.unravel_index(k, shape)), argument=t),
                                     observed=float(vf[k]), expected=sc_cache[t])
                            break
            if not np.array_equal(arr, before):
                ctx.fail("caller-array-unchanged", dict(case, query="cm/rates"), observed="changed", expected="unchanged")
            # threshold setting on a target array of the same shape / layout
            tgt_alpha = np.array([-0.25, 0.0, 0.1, 0.2, 1 / 3, 0.5, 0.6, 0.75, 0.9, 1.0, 1.25])
            tflat = tgt_alpha[(np.arange(size) * 5 + si) % len(tgt_alpha)]
            tg = tflat.reshape(shape)
            tg = np.asfortranarray(tg) if layout == "F" else (np.ascontiguousarray(tg.T).T if layout == "T" else tg)
            for st in ("tpr", "fpr", "topr"):
                ok, v = guarded(ctx, "threshold_at_" + st, case, lambda: np.asarray(getattr(s, "threshold_at_" + st)(tg)))
                ctx.tick(size)
                if ok:
                    if v.shape != shape:
                        ctx.fail("result-shape", dict(case, query="threshold_at_" + st), observed=list(v.shape), expected=list(shape))
                        continue
                    single = {float(r_): getattr(s, "threshold_at_" + st)(float(r_)) for r_ in tgt_alpha}
                    want = np.array([single[float(r_)] for r_ in tflat])
                    if not np.array_equal(v.reshape(size), want):
                        k = int(np.argmax(v.reshape(size) != want))
                        ctx.fail("element-equals-scalar-call", dict(case, query="threshold_at_" + st, index=list(np.unravel_index(k, shape)),
                                                                    argument=float(tflat[k])), observed=float(v.reshape(size)[k]), expected=float(want[k]))
    ctx.sample({"kind": "large_arrays", "shapes": [list(x) for x in shapes], "layouts": ["C", "F", "T", "strided"], "cfg": list(cfg)})
    return None


def _run_scalar_kinds(ctx):
    """
    One real number handed over as Python float / int, np.float64, np.float32 (when representable), 0-d array,
    1-element array and list - on objects whose scores are float32, float64, int64 or uint8: every kind must be
    answered like the float64 value it denotes (counting reference on the exact score values).
    """
    from mc import refs
    from score_analysis import Scores

    objs = []
    for dt in (np.float32, np.float64, np.int64, np.uint8):
        if np.dtype(dt).kind == "f":
            pos = np.array([0.7, 0.1, 0.3, 2.5], dtype=dt)
            neg = np.array([0.2, 0.7, 0.6, 1.1], dtype=dt)
        else:
            pos = np.array([7, 1, 3, 25], dtype=dt)
            neg = np.array([2, 7, 6, 11], dtype=dt)
        objs.append((np.dtype(dt).name, pos, neg))
    for dname, pos, neg in objs:
        ep_, en_ = [float(v) for v in pos.tolist()], [float(v) for v in neg.tolist()]  # exact values of the stored scores
        vals = sorted(set(ep_ + en_))
        thr = []
        for v in vals:
            thr += [v, math.nextafter(v, math.inf), math.nextafter(v, -math.inf), round(v, 1), round(v, 1) + 1e-9, float(np.float32(v)), float(int(v)), float(int(v) + 1)]
        thr += [0.7, 0.1, 0.30000000000000004, 16777217.0, -1.0]
        thr = list(dict.fromkeys(thr))
        for cfg in ot.CFGS:
            s = Scores(pos.copy(), neg.copy(), nb_easy_pos=1, score_class=cfg[0], equal_class=cfg[1])
            for t in thr:
                want = refs.ref_cm(ep_, en_, t, cfg[0], cfg[1], 1, 0)
                kinds = [("python-float", t), ("np.float64", np.float64(t)), ("0-d-array", np.array(t)), ("1-element-array", np.array([t])),
                         ("list", [t])]
                if float(t).is_integer() and abs(t) < 2 ** 62:
                    kinds += [("python-int", int(t)), ("np.int64", np.int64(int(t)))]
                if float(np.float32(t)) == t:
                    kinds.append(("np.float32", np.float32(t)))
                ctx.state()
                for kname, arg in kinds:
                    case = {"kind": "scalar_kinds", "score_dtype": dname, "pos": ep_, "neg": en_, "cfg": list(cfg), "threshold": t,
                            "passed_as": kname}
                    ok, m = guarded(ctx, "cm", case, lambda: np.asarray(s.cm(arg).matrix).reshape(2, 2).tolist())
                    ctx.tick()
                    if dname == "float32" and float(np.float32(t)) != t:
                        ctx.nontrivial()
                    if ok and m != want:
                        ctx.fail("element-equals-scalar-call", dict(case, query="cm"), observed=m, expected=want)
                    ok, v = guarded(ctx, "tpr", case, lambda: float(np.asarray(s.tpr(arg)).reshape(-1)[0]))
                    ctx.tick()
                    wv = refs.ref_rates(want)["tpr"]
                    if ok and not refs.same_float(v, wv):
                        ctx.fail("element-equals-scalar-call", dict(case, query="tpr"), observed=v, expected=None if wv is None else float(wv))
    ctx.sample({"kind": "scalar_kinds", "score_dtypes": [o[0] for o in objs]})
    return None


def _run_long_history(ctx, tier):
    """Hundreds of queries with pairwise distinct arguments on one object, then the first arguments again (bounded caches)."""
    from mc import refs
    from score_analysis import Scores

    pos, neg = _ref_object()
    spos, sneg = sorted(pos), sorted(neg)
    n = 700 if tier == "quick" else 5000
    for cfg in ot.CFGS[:2]:
        s = Scores(pos, neg, nb_easy_neg=3, score_class=cfg[0], equal_class=cfg[1])
        args = [(-3.0 + 17.0 * ((k * 0.6180339887498949) % 1.0)) for k in range(n)]
        hist = args + args[:40]
        ctx.state()
        for step, t in enumerate(hist):
            case = {"kind": "long_history", "cfg": list(cfg), "step": step, "threshold": t, "distinct_arguments_before": min(step, n)}
            want = refs.ref_cm_sorted(spos, sneg, t, cfg[0], cfg[1], 0, 3)
            arg = t if step % 3 else np.array([t, t + 0.03125])
            ok, m = guarded(ctx, "cm", case, lambda: np.asarray(s.cm(arg).matrix).reshape(-1, 2, 2)[0].tolist())
            ctx.tick()
            ctx.nontrivial()
            if ok and m != want:
                ctx.fail("element-equals-scalar-call", dict(case, query="cm"), observed=m, expected=want)
                break
            r = (k_ := step % 997) / 997.0
            for st in ("tpr", "fpr"):
                ok, th = guarded(ctx, "threshold_at_" + st, dict(case, target=r), lambda: float(getattr(s, "threshold_at_" + st)(r)))
                ctx.tick()
                if ok:
                    got = refs.ref_rates(refs.ref_cm_sorted(spos, sneg, th, cfg[0], cfg[1], 0, 3))[st]
                    npop = len(pos) if st == "tpr" else len(neg) + 3
                    if abs(float(got) - min(max(r, 0.0), 1.0)) > 1.0 / npop + 1e-12 and not (st == "fpr" and r > len(neg) / npop):
                        ctx.fail("threshold-setting-after-long-history", dict(case, target=r, setter=st), observed=float(got), expected=r)
                        break
    ctx.sample({"kind": "long_history", "distinct_arguments": n, "requeried": 40})
    return None


def _run_pointwise_large(item, ctx):
    """Every cell of a large pointwise array against the decision rule evaluated with broadcasting in this file."""
    from score_analysis.scores import pointwise_cm

    ns, nt = item["n_scores"], item["n_thresholds"]
    scores = ((np.arange(ns) * 37) % 1009) / 16.0
    labels = ((np.arange(ns) * 5 + (np.arange(ns) // 7)) % 3 == 0).astype(int)
    thr = ((np.arange(nt) * 101) % 1013) / 16.0 - 0.03125 * (np.arange(nt) % 2)
    for cfg in (ot.CFGS[0], ot.CFGS[3]):
        case = {"kind": "pointwise_large", "n_scores": ns, "n_thresholds": nt, "cfg": list(cfg)}
        ctx.state()
        ctx.nontrivial()
        ok, pw = guarded(ctx, "pointwise_cm", case, lambda: pointwise_cm(labels, scores, thr, score_class=cfg[0], equal_class=cfg[1]))
        ctx.tick(ns * nt)
        if not ok:
            continue
        if pw.shape != (ns, nt, 2, 2):
            ctx.fail("pointwise-shape", case, observed=list(pw.shape), expected=[ns, nt, 2, 2])
            continue
        sc_, th_ = scores[:, None], thr[None, :]
        if cfg[0] == "pos":
            pred = sc_ >= th_ if cfg[1] == "pos" else sc_ > th_
        else:
            pred = sc_ <= th_ if cfg[1] == "pos" else sc_ < th_
        isp = (labels == 1)[:, None]
        for (a, c), want in (((0, 0), isp & pred), ((0, 1), isp & ~pred), ((1, 0), ~isp & pred), ((1, 1), ~isp & ~pred)):
            got = pw[:, :, a, c]
            if not np.array_equal(got, want):
                i, j = np.argwhere(got != want)[0].tolist()
                ctx.fail("element-equals-scalar-call", dict(case, score_index=i, threshold_index=j, cell=[a, c], score=float(scores[i]),
                                                             threshold=float(thr[j]), label=int(labels[i])), observed=bool(got[i, j]), expected=bool(want[i, j]))
                break
        del pw
    ctx.sample({"kind": "pointwise_large", "n_scores": ns, "n_thresholds": nt})
    return None


def _run_pointwise(ctx, b):
    from score_analysis.scores import pointwise_cm

    scores_flat = [0.0, 1.0, 1.0, 2.5, 3.0, 0.5, 2.5, 1.5, 3.5, 0.25, 2.0, 2.75]
    labels_flat = [1, 0, 1, 1, 0, 0, 0, 1, 1, 0, 1, 0]
    thr_alpha = [0.0, 1.0, 1.25, 2.5, 5.0, -1.0]
    for sshape in [(), (1,), (4,), (0,), (2, 3), (3, 2, 2), (2, 0)]:
        size = int(np.prod(sshape)) if sshape else 1
        for slayout in ("C", "F", "T", "strided"):
            if slayout in ("F", "T") and len(sshape) < 2:
                continue
            if slayout == "strided" and len(sshape) < 1:
                continue
            sc_arr = fill(sshape, scores_flat, slayout)
            lb = np.array([labels_flat[i % len(labels_flat)] for i in range(size)]).reshape(sshape)
            if slayout == "F":
                lb = np.asfortranarray(lb)
            elif slayout == "T" and lb.ndim >= 2:
                lb = np.ascontiguousarray(lb.T).T
            for tshape in [(), (2,), (0,), (2, 2), (3, 1)]:
                for tlayout in ("C", "F"):
                    if tlayout == "F" and len(tshape) < 2:
                        continue
                    th = fill(tshape, thr_alpha, tlayout, offset=1)
                    for cfg in ot.CFGS:
                        case = {"scores_shape": list(sshape), "scores_layout": slayout, "threshold_shape": list(tshape),
                                "threshold_layout": tlayout, "cfg": list(cfg)}
                        ctx.state()
                        if sc_arr.size >= 2 and (sc_arr.ndim >= 2 or th.ndim >= 2):
                            ctx.nontrivial()
                        keep = (sc_arr.copy(), lb.copy(), th.copy())
                        ok, pw = guarded(ctx, "pointwise_cm", case, lambda: pointwise_cm(lb, sc_arr, th, score_class=cfg[0], equal_class=cfg[1]))
                        ctx.tick()
                        if not ok:
                            continue
                        if pw.shape != tuple(sshape) + tuple(tshape) + (2, 2):
                            ctx.fail("pointwise-shape", case, observed=list(pw.shape), expected=list(sshape) + list(tshape) + [2, 2])
                            continue
                        bad = False
                        for i in np.ndindex(*sshape):
                            for j in np.ndindex(*tshape):
                                one = pointwise_cm(int(lb[i]), float(sc_arr[i]), float(th[j]), score_class=cfg[0], equal_class=cfg[1])
                                if not np.array_equal(pw[i + j], one):
                                    ctx.fail("element-equals-scalar-call", dict(case, score_index=list(i), threshold_index=list(j),
                                                                                 label=int(lb[i]), score=float(sc_arr[i]), threshold=float(th[j])),
                                             observed=pw[i + j], expected=one)
                                    bad = True
                                    break
                            if bad:
                                break
                        if not (np.array_equal(sc_arr, keep[0]) and np.array_equal(lb, keep[1]) and np.array_equal(th, keep[2])):
                            ctx.fail("caller-array-unchanged", case, observed="modified", expected="unchanged")
    ctx.sample({"kind": "pointwise", "score_shapes": "(),(1,),(4,),(0,),(2,3),(3,2,2),(2,0)", "layouts": ["C", "F", "T", "strided"]})
    return None


# --------------------------------------------------------------------------- #
def _objects():
    from score_analysis import ConfusionMatrix, GroupScores, Scores
    from score_analysis.applications.doc_fraud import FraudScores

    return [
        ("scores-int-list", lambda: Scores([3, 1, 2, 2], [0, 2, 5]), opgraph.snapshot_scores),
        ("scores-float-ties-easy", lambda: Scores(np.array([0.5, 2.0, 2.0, 3.5]), np.array([0.0, 2.0, 1.0, 2.0]), nb_easy_pos=1,
                                                   nb_easy_neg=2, score_class="neg", equal_class="neg"), opgraph.snapshot_scores),
        ("scores-single-class", lambda: Scores([], [1.0, 0.5, 1.0], equal_class="neg"), opgraph.snapshot_scores),
        ("groupscores-3-groups", lambda: GroupScores(pos=[3.0, 1.0, 2.0, 2.0], neg=[0.0, 2.0, 5.0], pos_groups=["a", "b", "a", "c"],
                                                     neg_groups=["b", "a", "b"]), opgraph.snapshot_scores),
        ("fraudscores", lambda: FraudScores(genuines=[0.9, 0.5, 0.5], frauds=[0.1, 0.5, 0.7], nb_easy_genuines=2), opgraph.snapshot_scores),
        ("confusion-matrix-stacked", lambda: ConfusionMatrix(matrix=np.array([[[2, 1], [0, 3]], [[0, 0], [4, 1]], [[5, 5], [5, 5]]]),
                                                             binary=True), opgraph.snapshot_cm),
        ("confusion-matrix-float-binary", lambda: ConfusionMatrix(matrix=np.array([[[2.0, 1.0], [0.5, 3.0]], [[0.25, 0.5], [4.0, 1.0]]]),
                                                                  binary=True), opgraph.snapshot_cm),
        ("confusion-matrix-multiclass", lambda: ConfusionMatrix(matrix=np.array([[2.0, 1.0, 0.0], [0.5, 3.0, 1.0], [0.0, 0.0, 4.0]]),
                                                                classes=["x", "y", "z"]), opgraph.snapshot_cm),
    ]


def _scores_events(probe):
    from score_analysis import BootstrapConfig
    from score_analysis.roc_curve import roc, roc_with_ci
    from score_analysis.scores import pointwise_cm

    ev = []
    for r in RATES + list(ALIAS):
        ev.append((f"{r}(array)", lambda o, e, r=r: getattr(o, r)(e["T"])))
        ev.append((f"{r}(scalar)", lambda o, e, r=r: getattr(o, r)(e["t"])))
        ev.append((f"{r}(list)", lambda o, e, r=r: getattr(o, r)(e["Tlist"])))
    for st in SETTERS:
        for method in ("linear", "lower", "higher"):
            ev.append((f"threshold_at_{st}[{method}](array)", lambda o, e, st=st, method=method: getattr(o, "threshold_at_" + st)(e["R"], method=method)))
        ev.append((f"threshold_at_{st}(scalar)", lambda o, e, st=st: getattr(o, "threshold_at_" + st)(0.4)))
        ev.append((f"threshold_at_{st}(int array)", lambda o, e, st=st: getattr(o, "threshold_at_" + st)(e["Rint"])))
    ev += [
        ("cm(array)", lambda o, e: o.cm(e["T"])),
        ("cm(2d)", lambda o, e: o.cm(e["T2"])),
        ("eer", lambda o, e: o.eer()),
        ("auc", lambda o, e: o.auc()),
        ("auc-partial", lambda o, e: o.auc(0.2, 0.7, x_axis="tnr", y_axis="fnr")),
        ("swap.cm", lambda o, e: o.swap().cm(e["T"])),
        ("swap.swap.fnr", lambda o, e: o.swap().swap().fnr(e["T"])),
        ("swap.threshold_at_fpr", lambda o, e: o.swap().threshold_at_fpr(e["R"])),
        ("threshold_at_metric", lambda o, e: o.threshold_at_metric(e["R"], "fnr")),
        ("threshold_at_metric[points]", lambda o, e: o.threshold_at_metric(0.5, "fpr", e["T"])),
        ("threshold_at_metric[int]", lambda o, e: o.threshold_at_metric(e["R"], lambda s_, t: s_.tonr(t), 5)),
        ("roc", lambda o, e: roc(o, nb_points=5)),
        ("roc[supplied]", lambda o, e: roc(o, fnr=e["R"], thresholds=e["T"], x_axis="tnr")),
        ("roc[all]", lambda o, e: roc(o, nb_points=None, x_axis="fnr")),
        ("roc_with_ci[identity]", lambda o, e: roc_with_ci(o, fpr=e["R"], config=BootstrapConfig(nb_samples=2, sampling_method=lambda s: s,
                                                                                                  bootstrap_method="quantile"))),
        ("bootstrap_metric[identity]", lambda o, e: o.bootstrap_metric("fnr", config=BootstrapConfig(nb_samples=2, sampling_method=lambda s: s),
                                                                       threshold=e["T"])),
        ("bootstrap_ci[identity]", lambda o, e: o.bootstrap_ci("auc", 0.1, BootstrapConfig(nb_samples=2, sampling_method=lambda s: s,
                                                                                            bootstrap_method="bc"))),
        ("bootstrap_sample[callable]", lambda o, e: o.bootstrap_sample(BootstrapConfig(sampling_method=lambda s: s.swap()))),
        ("pointwise_cm", lambda o, e: pointwise_cm(e["labels"], e["scores"], e["T"])),
        ("properties", lambda o, e: (o.hard_pos_ratio, o.hard_neg_ratio, o.easy_ratio, o.nb_all_samples, o.nb_hard_pos)),
        ("eq-self", lambda o, e: o == o),
    ]
    for sd, strat in ((3, None), (4, "by_label")):
        def evs(o, e, sd=sd, strat=strat):
            st = np.random.get_state()
            np.random.seed(sd)
            try:
                return o.bootstrap_sample(BootstrapConfig(sampling_method="replacement", stratified_sampling=strat))
            finally:
                np.random.set_state(st)
        ev.append((f"bootstrap_sample[seed={sd},{strat}]", evs))
    if hasattr(probe, "pos_groups"):
        from score_analysis.group_scores import groupwise

        ev += [(f"getitem[{g_}]", lambda o, e, g_=g_: o[g_]) for g_ in list(probe.groups)]
        ev += [("group_cm", lambda o, e: o.group_cm(e["T"])), ("group_fnr", lambda o, e: o.group_fnr(e["T2"])),
               ("group_far(scalar)", lambda o, e: o.group_far(e["t"])),
               ("groupwise-auc", lambda o, e: groupwise("topr")(o, threshold=e["T"])),
               ("swap.group_cm", lambda o, e: o.swap().group_cm(e["T"])),
               ("swap[last]", lambda o, e: o.swap()[list(o.groups)[-1]])]
    if hasattr(probe, "genuines"):
        ev += [("genuines", lambda o, e: o.genuines), ("frauds", lambda o, e: o.frauds)]
    return ev


def _cm_events(probe):
    names = ["pop", "accuracy", "error_rate", "tp", "tn", "fp", "fn", "p", "n", "top", "ton", "tpr", "tnr", "fpr", "fnr", "tar",
             "frr", "trr", "far", "topr", "tonr", "acceptance_rate", "rejection_rate", "ppv", "npv", "fdr", "for_",
             "class_accuracy", "class_error_rate"]
    ev = [(nm, lambda o, e, nm=nm: getattr(o, nm)()) for nm in names]
    for nm in ("tpr_ci", "tnr_ci", "fpr_ci", "fnr_ci", "tar_ci", "far_ci"):
        for alpha in (0.05, 0.5):
            ev.append((f"{nm}[{alpha}]", lambda o, e, nm=nm, alpha=alpha: getattr(o, nm)(alpha=alpha)))
    ev += [("one_vs_all", lambda o, e: o.one_vs_all()), ("getitem", lambda o, e: o[..., :, :] if o.matrix.ndim == 2 else o[0]),
           ("array", lambda o, e: np.asarray(o)), ("eq", lambda o, e: o == o)]
    if not probe.binary:
        ev += [("tpr(as_dict)", lambda o, e: o.tpr(as_dict=True)), ("fnr_ci(as_dict)", lambda o, e: o.fnr_ci(as_dict=True))]
    return ev


def _run_history(item, ctx):
    objs = _objects()
    name, make, snap = objs[item["which"] % len(objs)]
    probe = make()
    if snap is opgraph.snapshot_cm:
        events = _cm_events(probe)
        vals = [0.0, 1.0]
    else:
        events = _scores_events(probe)
        vals = sorted(set(map(float, list(probe.pos) + list(probe.neg))))
    T = ot.threshold_alphabet(vals)[1:-1]

    Tu = T[1::2] + T[0::2][::-1]  # caller arrays are deliberately unsorted

    def make_env():
        return {"T": np.array(Tu, dtype=float), "t": float(T[len(T) // 2]), "Tlist": list(Tu[:3]), "T2": np.array(Tu[:4]).reshape(2, 2),
                "R": np.array([0.5, 0.0, 1.0, 0.3]), "Rint": np.array([0, 1, 1]), "labels": np.array([1, 0, 1, 0]),
                "scores": np.array([0.5, 2.0, 1.0, 2.0])}

    case = {"kind": "history", "object": name, "uses_global_rng": False}
    by_name = dict(events)

    def make_env2():
        e = make_env()
        e["T"] = e["T"][::-1].copy() + 0.125  # same shapes, other values
        e["T2"] = e["T2"] + 0.125
        e["t"] = e["t"] + 0.125
        e["R"] = e["R"][::-1].copy()
        return e

    def perturb(name):
        # the same query with other arguments of the same shape, then one unrelated vectorised query
        fn = by_name[name]
        other = "cm(array)" if "cm(array)" in by_name and name != "cm(array)" else events[0][0]
        return [(name + "'", lambda o, e, fn=fn: fn(o, make_env2())), (other, by_name[other])]

    res = opgraph.explore(make, make_env, events, snap, ctx, case, max_states=40, perturb=perturb)
    ctx.state(res["states"])
    ctx.nontrivial(res["outcomes"])
    if not res["fixpoint"]:
        ctx.add("caps_hit")
    expect = 2 ** len(getattr(probe, "groups", [])) if hasattr(probe, "pos_groups") else 1
    if res["states"] > expect:
        ctx.fail("queries-leave-no-hidden-state", case, observed=res["states"], expected=f"<= {expect} reachable states")
    # ---- mutation histories: the object is changed through its public attributes *after* every query has
    # run once (all lazily filled state exists); every query must then answer for the new state, i.e. exactly
    # like an object that was brought into that state without ever having been queried.
    nmut = 0
    for mname, mutate in _mutations(probe, snap):
        ref_obj = make()
        mutate(ref_obj)
        used = make()
        for _, fn in events:
            opgraph.run_event(fn, used, make_env())
        mutate(used)
        for ename, fn in events:
            want = opgraph.canon(opgraph.run_event(fn, ref_obj, make_env()))
            got = opgraph.canon(opgraph.run_event(fn, used, make_env()))
            ctx.tick(2)
            nmut += 1
            if got != want:
                ctx.fail("no-stale-state-after-attribute-update", dict(case, mutation=mname, query=ename), observed=got,
                         expected=want)
                break
    ctx.nontrivial(nmut)
    ctx.sample({"kind": "history", "object": name, "events": len(events), "result": res,
                "mutations": [m for m, _ in _mutations(probe, snap)]})
    return None


def _mutations(probe, snap):
    """[(name, fn(obj))]: updates of an object through its public attributes."""
    out = []
    if snap is opgraph.snapshot_cm:
        def scale(o):
            o.matrix[...] = o.matrix[..., ::-1, :] * 2 + 1

        def reassign(o):
            o.matrix = (o.matrix * 3 + 1).copy()

        return [("matrix updated in place", scale), ("matrix reassigned", reassign)]
    if hasattr(probe, "pos_groups"):
        # GroupScores documents a per-group cache that is filled once; updating its arrays afterwards is
        # not supported by the class and not claimed by any property
        return []
    is_fraud = hasattr(probe, "genuines")

    def new_scores(o):
        if is_fraud:
            o.genuines = np.sort(1.0 - np.asarray(o.genuines, dtype=float) * 0.5)[::1]
            o.frauds = np.sort(np.asarray(o.frauds, dtype=float) * 0.25)
        else:
            # increasing affine maps keep the arrays sorted and the group labels aligned
            o.pos = np.asarray(o.pos, dtype=float) * 1.5 + 2.0
            o.neg = np.asarray(o.neg, dtype=float) * 0.5 - 1.0

    out.append(("scores reassigned (same sizes, other range)", new_scores))

    def in_place(o):
        if o.pos.dtype.kind == "f":
            o.pos[...] = o.pos * 2.0 + 0.125 if not is_fraud else o.pos * 0.5
        else:
            o.pos = o.pos * 2 + 1
        if o.neg.dtype.kind == "f":
            o.neg[...] = o.neg - 3.0 if not is_fraud else o.neg * 0.5
        else:
            o.neg = o.neg - 3

    out.append(("scores updated in place", in_place))
    if not hasattr(probe, "pos_groups"):
        def easy(o):
            o.nb_easy_pos = o.nb_easy_pos + 3
            o.nb_easy_neg = 0 if o.nb_easy_neg else 5

        out.append(("easy counts reassigned", easy))

        def flags(o):
            from score_analysis.scores import BinaryLabel

            o.equal_class = BinaryLabel.neg if o.equal_class == BinaryLabel.pos else BinaryLabel.pos

        out.append(("equal_class flipped", flags))
    return out

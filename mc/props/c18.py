"""C18 - showbias reports per group the metric of exactly that group's rows, on one scale."""

from __future__ import annotations

import itertools
import math
from fractions import Fraction as F

import numpy as np
import pandas as pd

from mc import refs
from mc import rngtree
from mc.harness import HarnessError, guarded
from mc.props.c04 import definitions

ID = "C18"
TITLE = "showbias reports per group the metric of exactly that group's rows, one scale"
ENGINE = "order-type-explorer"
TECHNIQUE = ("exhaustive enumeration of small frames (all group assignments over a colliding value alphabet x labels x "
             "tie patterns x cfg x metric names x normalisations) and of sampler answer sequences, on the real code "
             "vs plain-Python per-group counting and CI formulas")
RULE = (
    "state = (frame: assignment of rows to group values in one or two columns, labels, scores, cfg, pos_label); "
    "transition = one showbias call (metric x thresholds x normalize [x bootstrap method x sampler answer "
    "sequence]) compared entry by entry with the metric of the plain-Python confusion matrix of exactly the rows "
    "carrying that group tuple; non-trivial = at least two groups and (a group value containing '_' / blank, or a "
    "normalisation, or bootstrap); distinct by construction"
)
ASSUMPTIONS = [
    "frames of <= 4 rows (quick) / 5 (thorough) for the value clauses; 4-6 distinct-score rows for the bootstrap "
    "clauses; group value alphabets chosen to collide under '_'-joining",
    "row order of the result is not pinned: entries are compared by label",
    "by_overall accepts replicates normalised by the original's or by the replicate's overall metric; columns "
    "in which a group value is NaN are not judged for normalisation (the statement does not define it)",
    "pandas is trusted; CI formulas re-implemented in plain Python (C13)",
]
METRICS = ["tp", "tn", "fp", "fn", "p", "n", "top", "ton", "pop", "accuracy", "error_rate", "tpr", "tnr", "fpr", "fnr",
           "tar", "frr", "trr", "far", "topr", "tonr", "acceptance_rate", "rejection_rate", "ppv", "npv", "fdr", "for_",
           "class_accuracy", "class_error_rate"]
KEY = {"tar": "tpr", "frr": "fnr", "trr": "tnr", "far": "fpr", "acceptance_rate": "topr", "rejection_rate": "tonr",
       "class_accuracy": "accuracy", "class_error_rate": "error_rate"}
ONE_COL = ["A", "a_b", " ", "", "b", "B_", "a", "_", "__", "a__b", "\u00e4_\u00df", "0", "10"]
TWO_COL = [("a", "b_c"), ("a_b", "c"), ("a", "b"), ("a_b", "x"), ("", "_"), ("_", ""), ("a_b_c", "d"), ("_", "_"), ("a_", "_b"),
           ("a__", "b"), ("1", "0"), ("1", "10"), ("\u00e4", "\u00df_")]
CFGS = [("pos", "pos"), ("pos", "neg"), ("neg", "pos"), ("neg", "neg")]


def bounds(tier):
    if tier == "quick":
        return {"max_rows": 4, "group_values_per_frame": 3, "metrics": len(METRICS), "normalize": [None, "by_overall", "by_min"],
                "bootstrap_frames": 6, "menu": 3, "max_nb_samples": 2, "methods": ["quantile", "bc", "bca"]}
    return {"max_rows": 5, "group_values_per_frame": 3, "metrics": len(METRICS), "normalize": [None, "by_overall", "by_min"],
            "bootstrap_frames": 12, "menu": 3, "max_nb_samples": 3, "methods": ["quantile", "bc", "bca"]}


def work(tier, seed):
    b = bounds(tier)
    items = []
    k = 0
    for ncols in (1, 2):
        for n in range(1, b["max_rows"] + 1):
            for assign in itertools.product(range(b["group_values_per_frame"]), repeat=n):
                if assign and assign[0] != 0 and n > 1:
                    pass
                items.append({"kind": "values", "ncols": ncols, "assign": list(assign), "rot": k})
                k += 1
    for ncols in (1, 2):
        for ngroups in (11, 12, 23):
            items.append({"kind": "many_groups", "ncols": ncols, "ngroups": ngroups})
    for j in range(b["bootstrap_frames"]):
        items.append({"kind": "bootstrap", "which": j})
    for base in (2**53, 2**62, -(2**53) - 8):
        for ncols in (1, 2):
            items.append({"kind": "bigint", "base": base, "ncols": ncols})
    for nvals in (1300,):
        items.append({"kind": "wide_groups", "nvals": nvals, "ncols": 3})
    items.append({"kind": "wide_groups", "nvals": 50000, "ncols": 2})
    # many group columns: the product of the level counts exceeds 2^64 (14 x 32 levels, 9 x 256) with few groups
    items.append({"kind": "many_columns", "ncols": 14, "levels": 32, "groups": 64})
    items.append({"kind": "many_columns", "ncols": 9, "levels": 256, "groups": 300})
    for ncols in (1, 2):
        items.append({"kind": "nul", "ncols": ncols})
    for which in ("fnr_ci", "tpr_ci", "fpr_ci"):
        items.append({"kind": "interval_metric", "metric": which})
    items.append({"kind": "errors"})
    return items


def metric_value(m, name):
    """Exact metric (Fraction or None) of a [[tp,fn],[fp,tn]] matrix."""
    d = definitions([[F(m[0][0]), F(m[0][1])], [F(m[1][0]), F(m[1][1])]])
    return d[KEY.get(name, name)]


def fval(x):
    return math.nan if x is None else float(x)


def frame_groups(rows, cols):
    """distinct group keys (str or tuple) -> row indices"""
    out = {}
    for i, r in enumerate(rows):
        key = r["g"] if cols == 1 else (r["g"], r["h"])
        out.setdefault(key, []).append(i)
    return out


def expected_table(rows, cols, thresholds, metric, cfg, pos_label):
    groups = frame_groups(rows, cols)
    tab = {}
    for key, idx in groups.items():
        pos = [rows[i]["s"] for i in idx if rows[i]["l"] == pos_label]
        neg = [rows[i]["s"] for i in idx if rows[i]["l"] != pos_label]
        tab[key] = [metric_value(refs.ref_cm(pos, neg, t, cfg[0], cfg[1]), metric) for t in thresholds]
    pos = [r["s"] for r in rows if r["l"] == pos_label]
    neg = [r["s"] for r in rows if r["l"] != pos_label]
    overall = [metric_value(refs.ref_cm(pos, neg, t, cfg[0], cfg[1]), metric) for t in thresholds]
    return tab, overall


def normalise(tab, overall, how):
    """tab: key -> list of Fraction/None per threshold. Returns key -> list of float, and per-column judged flag."""
    keys = list(tab)
    T = len(overall)
    out = {k: [fval(v) for v in tab[k]] for k in keys}
    judged = [True] * T
    if how is None:
        return out, judged
    for t in range(T):
        col = [tab[k][t] for k in keys]
        if any(v is None for v in col) or (how == "by_overall" and overall[t] is None):
            judged[t] = False
            continue
        den = overall[t] if how == "by_overall" else min(col)
        for k in keys:
            out[k][t] = float(tab[k][t] / den) if den != 0 else float(tab[k][t])
    return out, judged


def table_of(df):
    """DataFrame -> {label: [values]} with labels as str / tuple."""
    out = {}
    for lab, row in zip(df.index.tolist(), df.values.tolist()):
        out[lab] = [float(v) for v in row]
    return out


def compare_table(ctx, case, got_df, want, judged, thresholds, clause):
    got = table_of(got_df)
    cols = [float(c) for c in got_df.columns.tolist()]
    if cols != [float(t) for t in thresholds]:
        ctx.fail("columns-are-the-thresholds", case, observed=cols, expected=list(thresholds))
        return False
    if len(got) != len(got_df.index) or set(got) != set(want):
        ctx.fail("rows-labelled-with-the-groups-of-their-rows", case, observed=sorted(map(repr, got_df.index.tolist())),
                 expected=sorted(map(repr, want)))
        return False
    ok = True
    for key in want:
        for t in range(len(thresholds)):
            if not judged[t]:
                continue
            g, w = got[key][t], want[key][t]
            if not ((math.isnan(g) and math.isnan(w)) or abs(g - w) <= 1e-12 * max(1.0, abs(w))):
                ctx.fail(clause, dict(case, group=repr(key), threshold=thresholds[t]), observed=g, expected=w)
                ok = False
                break
    return ok


def make_rows(item):
    ncols, assign, rot = item["ncols"], item["assign"], item["rot"]
    n = len(assign)
    if ncols == 1:
        vals = [ONE_COL[(rot + j) % len(ONE_COL)] for j in range(3)]
        while len(set(vals)) < 3:
            vals = [ONE_COL[(rot + j + 1 + vals.index(v)) % len(ONE_COL)] if vals.count(v) > 1 else v for j, v in enumerate(vals)]
    else:
        vals = [TWO_COL[(rot + j) % len(TWO_COL)] for j in range(3)]
        if rot % 3 == 0:
            vals[0], vals[1] = TWO_COL[0], TWO_COL[1]  # the pair that collides under '_'-joining
    label_patterns = [[1, 0, 1, 0, 2], [0, 1, 1, 2, 0], [1, 1, 0, 0, 1], [2, 1, 2, 1, 0], [1, 1, 1, 1, 1], [0, 0, 2, 0, 0]]
    labels = label_patterns[rot % len(label_patterns)]
    score_patterns = [[0.5, 0.25, 0.5, 0.75, 0.1], [0.9, 0.5, 0.5, 0.5, 0.2], [0.1, 0.2, 0.3, 0.4, 0.5], [0.5, 0.5, 0.5, 0.5, 0.5],
                      [2, 1, 2, 3, 0]]  # the last pattern gives an integer score column
    scores = score_patterns[(rot // 2) % len(score_patterns)]
    rows = []
    for i, a in enumerate(assign):
        r = {"l": labels[i], "s": scores[i]}
        if ncols == 1:
            r["g"] = vals[a]
        else:
            r["g"], r["h"] = vals[a]
        rows.append(r)
    return rows


def call_showbias(rows, ncols, metric, threshold, normalize, cfg, pos_label, **extra):
    from score_analysis import showbias

    data = {"grp": [r["g"] for r in rows], "lab": [r["l"] for r in rows], "sc": [r["s"] for r in rows]}
    if ncols == 2:
        data["hh"] = [r["h"] for r in rows]
    df = pd.DataFrame(data)
    if extra.pop("_uint8", False):
        df["sc"] = df["sc"].astype(np.uint8)
    if extra.pop("_shuffled_index", False):
        df.index = list(range(len(df)))[::-1]
    # metric / normalisation names as literal, equal string built at run time or NumPy string (by the number of rows)
    from mc import ordertypes as ot_

    metric = ot_.string_kinds(metric)[len(rows) % 3][1]
    normalize = None if normalize is None else ot_.string_kinds(normalize)[(len(rows) + 1) % 3][1]
    return showbias(df, "grp" if ncols == 1 else ["grp", "hh"], "lab", "sc", metric, normalize=normalize,
                    pos_label=pos_label, score_class=cfg[0], equal_class=cfg[1], threshold=threshold, **extra)


def run(item, ctx, tier, seed):
    b = bounds(tier)
    if item["kind"] == "errors":
        return _run_errors(ctx)
    if item["kind"] == "bootstrap":
        return _run_bootstrap(item, ctx, b)
    if item["kind"] == "many_groups":
        return _run_many_groups(item, ctx, b)
    if item["kind"] == "bigint":
        return _run_bigint(item, ctx, b)
    if item["kind"] == "wide_groups":
        return _run_wide_groups(item, ctx, b)
    if item["kind"] == "interval_metric":
        return _run_interval_metric(item, ctx, b)
    if item["kind"] == "many_columns":
        return _run_many_columns(item, ctx, b)
    if item["kind"] == "nul":
        return _run_nul(item, ctx, b)
    rows = make_rows(item)
    ncols, rot = item["ncols"], item["rot"]
    cfg = CFGS[rot % 4]
    pos_label = 1 if rot % 3 else 2
    groups = frame_groups(rows, ncols)
    special = any(("_" in str(x) or str(x).strip() == "") for k in groups for x in (k if isinstance(k, tuple) else (k,)))
    int_scores = all(isinstance(r["s"], int) for r in rows)
    # four unsorted thresholds whose sorting permutation is one 4-cycle (not its own inverse)
    thr_list = [1.5, 2.5, 0.5, 2] if int_scores else [0.5, 0.8, 0.25, 0.6]
    thr_scalar = thr_list[0]
    for mi, metric in enumerate(METRICS):
        for threshold, tl in ((thr_scalar, [thr_scalar]), (thr_list, thr_list)) if mi % 2 == rot % 2 else ((thr_list, thr_list),):
            tab, overall = expected_table(rows, ncols, tl, metric, cfg, pos_label)
            for how in b["normalize"]:
                case = {"rows": rows, "ncols": ncols, "metric": metric, "threshold": threshold, "normalize": how,
                        "cfg": list(cfg), "pos_label": pos_label}
                ctx.state()
                if len(groups) >= 2 and (special or how is not None):
                    ctx.nontrivial()
                ok, bf = guarded(ctx, "showbias", case, call_showbias, rows, ncols, metric, threshold, how, cfg, pos_label,
                                 _shuffled_index=(mi % 5 == 0), _uint8=(int_scores and mi % 2 == 0))
                ctx.tick()
                if not ok:
                    continue
                want, judged = normalise(tab, overall, how)
                if bf.lower is not None or bf.upper is not None:
                    ctx.fail("no-intervals-unless-requested", case, observed="lower/upper set", expected=None)
                compare_table(ctx, case, bf.values, want, judged, tl,
                              "entry-is-metric-of-that-groups-rows" if how is None else "normalised-entry")
                ctx.outcome((metric, how, tuple(sorted((repr(k), tuple(v)) for k, v in want.items() if not any(map(math.isnan, v))))))
    ctx.sample({"rows": rows, "ncols": ncols, "cfg": list(cfg), "pos_label": pos_label, "metrics": len(METRICS)})
    return None


# --------------------------------------------------------------------------- #
BOOT_FRAMES = [
    # (ncols, rows[(g[,h]), label, score]) - distinct scores, every group has both classes
    (1, [("A", 1, 0.9), ("A", 0, 0.2), ("A", 1, 0.6), ("a_b", 1, 0.7), ("a_b", 0, 0.4), ("a_b", 0, 0.65)]),
    (2, [(("a", "b_c"), 1, 0.8), (("a", "b_c"), 0, 0.3), (("a_b", "c"), 1, 0.55), (("a_b", "c"), 0, 0.45),
         (("a_b", "c"), 1, 0.35)]),
    (1, [("x", 1, 0.1), ("x", 0, 0.9), ("y", 1, 0.75), ("y", 0, 0.25), ("z", 1, 0.5), ("z", 0, 0.6)]),
    (1, [("only", 1, 0.7), ("only", 0, 0.3), ("only", 1, 0.4), ("only", 0, 0.6)]),
    (2, [(("", "_"), 1, 0.15), (("", "_"), 0, 0.85), (("_", ""), 1, 0.95), (("_", ""), 0, 0.05)]),
    (1, [(" ", 2, 0.9), (" ", 1, 0.2), ("", 2, 0.3), ("", 0, 0.8), ("", 2, 0.55)]),
    (1, [("A", 1, 0.51), ("A", 0, 0.49), ("B_", 1, 0.52), ("B_", 0, 0.48), ("B_", 0, 0.9)]),
    (2, [(("a", "b"), 1, 0.6), (("a", "b"), 0, 0.4), (("a_b", "x"), 1, 0.7), (("a_b", "x"), 0, 0.2), (("a", "b"), 1, 0.1)]),
    (1, [("g1", 1, 0.2), ("g1", 0, 0.1), ("g2", 1, 0.4), ("g2", 0, 0.3), ("g3", 1, 0.6), ("g3", 0, 0.5)]),
    (1, [("u", 1, 0.3), ("u", 0, 0.7), ("u", 1, 0.9), ("v", 1, 0.1), ("v", 0, 0.5), ("v", 0, 0.8)]),
    (2, [(("p", "q"), 1, 0.35), (("p", "q"), 0, 0.65), (("p", "r"), 1, 0.85), (("p", "r"), 0, 0.15)]),
    (1, [("k_1", 2, 0.45), ("k_1", 0, 0.55), ("k_2", 2, 0.95), ("k_2", 1, 0.05), ("k_2", 2, 0.5)]),
]


def _run_bootstrap(item, ctx, b):
    from score_analysis import BootstrapConfig, GroupScores

    ncols, spec = BOOT_FRAMES[item["which"] % len(BOOT_FRAMES)]
    rows = []
    for gkey, lab, sc in spec:
        r = {"l": lab, "s": sc}
        if ncols == 1:
            r["g"] = gkey
        else:
            r["g"], r["h"] = gkey
        rows.append(r)
    pos_label = 2 if any(r["l"] == 2 for r in rows) else 1
    cfg = CFGS[item["which"] % 4]
    score_to_row = {r["s"]: i for i, r in enumerate(rows)}
    groups = frame_groups(rows, ncols)
    keys = list(groups)
    row_key = {}
    for k, idx in groups.items():
        for i in idx:
            row_key[i] = k

    def sub_rows(sample):
        """Rows (with repetition) a sample consists of, recovered through the distinct scores."""
        out = []
        for s in np.asarray(sample.pos, dtype=float).tolist() + np.asarray(sample.neg, dtype=float).tolist():
            out.append(rows[score_to_row[s]])
        return out

    def patterns(s):
        """Three deterministic sub-samples of the object showbias built (all strata keep a member)."""
        def collapse(vals, grps):
            vals, grps = np.asarray(vals), np.asarray(grps)
            idx = np.arange(len(vals))
            for g_ in set(grps.tolist()):
                m = np.nonzero(grps == g_)[0]
                idx[m] = m[0]
            return idx

        def dup_last(vals, grps):
            vals, grps = np.asarray(vals), np.asarray(grps)
            extra = [np.nonzero(grps == g_)[0][-1] for g_ in sorted(set(grps.tolist()), key=repr)]
            return np.concatenate([np.arange(len(vals)), np.array(extra, dtype=int)])

        def mk(pi, ni):
            return GroupScores(pos=s.pos[pi], neg=s.neg[ni], pos_groups=s.pos_groups[pi], neg_groups=s.neg_groups[ni],
                               score_class=s.score_class, equal_class=s.equal_class, group_names=s.groups)

        return [s, mk(collapse(s.pos, s.pos_groups), np.arange(len(s.neg))),
                mk(np.arange(len(s.pos)), dup_last(s.neg, s.neg_groups))]

    thr_menu = [([0.5], 0.5), ([0.5, 0.8, 0.3, 0.6], [0.5, 0.8, 0.3, 0.6])]
    metrics = ["fnr", "topr", "accuracy", "fpr"]
    alpha = 0.2
    for n in range(1, b["max_nb_samples"] + 1):
        for seq in itertools.product(range(b["menu"]), repeat=n):
            for mi, metric in enumerate(metrics):
                tl, threshold = thr_menu[(mi + n + sum(seq)) % 2]
                for how in b["normalize"]:
                    for method in b["methods"]:
                        calls, produced = [], []

                        def sampler(s, _seq=seq, _c=calls, _p=produced):
                            _c.append(s)
                            smp = patterns(s)[_seq[len(_c) - 1]]
                            _p.append(smp)
                            return smp

                        cfgobj = BootstrapConfig(nb_samples=n, bootstrap_method=method, sampling_method=sampler)
                        case = {"rows": rows, "ncols": ncols, "metric": metric, "threshold": threshold, "normalize": how,
                                "cfg": list(cfg), "pos_label": pos_label, "method": method, "sequence": list(seq),
                                "alpha": alpha}
                        ctx.state()
                        ctx.nontrivial()
                        ok, bf = guarded(ctx, "showbias-bootstrap", case, call_showbias, rows, ncols, metric, threshold, how,
                                         cfg, pos_label, bootstrap_ci=True, bootstrap_config=cfgobj, alpha=alpha)
                        ctx.tick()
                        if not ok:
                            continue
                        judge_bootstrap(ctx, case, bf, rows, ncols, keys, tl, metric, cfg, pos_label, how, method, alpha,
                                        [sub_rows(p_) for p_ in produced])
    # built-in sampler under the RNG answer tree (one replicate), observed through a wrapping callable
    if len(rows) <= 5:
        for how in b["normalize"]:
            for method in b["methods"][:2]:
                inner = BootstrapConfig(sampling_method="replacement", stratified_sampling="by_group")
                produced = []

                def sampler(s, _p=produced):
                    smp = s.bootstrap_sample(inner)
                    _p.append(smp)
                    return smp

                cfgobj = BootstrapConfig(nb_samples=1, bootstrap_method=method, sampling_method=sampler)
                case = {"rows": rows, "ncols": ncols, "metric": "topr", "threshold": [0.5, 0.3], "normalize": how,
                        "cfg": list(cfg), "pos_label": pos_label, "method": method, "sampler": "replacement/by_group",
                        "alpha": alpha}

                def fn(orc):
                    produced.clear()
                    return call_showbias(rows, ncols, "topr", [0.5, 0.3], how, cfg, pos_label, bootstrap_ci=True,
                                         bootstrap_config=cfgobj, alpha=alpha)

                leaves, mass = 0, 0.0
                try:
                    for orc, bf in rngtree.explore(fn, twice=False, max_leaves=20000):
                        leaves += 1
                        mass += orc.prob
                        ctx.tick()
                        judge_bootstrap(ctx, dict(case, answers=orc.choices), bf, rows, ncols, keys, [0.5, 0.3], "topr", cfg,
                                        pos_label, how, method, alpha, [sub_rows(p_) for p_ in produced])
                except rngtree.UnownedRNG as e:
                    raise HarnessError(str(e))
                ctx.state()
                ctx.add("leaves", leaves)
                if abs(mass - 1.0) > 1e-9:
                    ctx.fail("leaf-probabilities-sum-to-one", case, observed=mass, expected=1.0)
    ctx.sample({"kind": "bootstrap", "rows": rows, "ncols": ncols, "metrics": metrics, "methods": b["methods"],
                "sequences": sum(b["menu"] ** n for n in range(1, b["max_nb_samples"] + 1))})
    return None


def judge_bootstrap(ctx, case, bf, rows, ncols, keys, tl, metric, cfg, pos_label, how, method, alpha, sample_rows):
    tab, overall = expected_table(rows, ncols, tl, metric, cfg, pos_label)
    want, judged = normalise(tab, overall, how)
    if not compare_table(ctx, case, bf.values, want, judged, tl, "normalised-entry" if how else "entry-is-metric-of-that-groups-rows"):
        return
    if bf.lower is None or bf.upper is None:
        ctx.fail("intervals-present-when-requested", case, observed=None, expected="lower and upper frames")
        return
    for nm, fr in (("lower", bf.lower), ("upper", bf.upper)):
        if fr.index.tolist() != bf.values.index.tolist() or [float(c) for c in fr.columns] != [float(c) for c in bf.values.columns]:
            ctx.fail("interval-frames-carry-the-same-labels", dict(case, frame=nm), observed=[fr.index.tolist(), list(fr.columns)],
                     expected=[bf.values.index.tolist(), list(bf.values.columns)])
            return
    lower, upper = table_of(bf.lower), table_of(bf.upper)
    # replicates recomputed independently from the rows each sample consists of
    reps = []  # per replicate: (tab, overall)
    for sr in sample_rows:
        groups_r = {k: [] for k in keys}
        t_r = {}
        for k in keys:
            pos = [r["s"] for r in sr if (r["g"] if ncols == 1 else (r["g"], r["h"])) == k and r["l"] == pos_label]
            neg = [r["s"] for r in sr if (r["g"] if ncols == 1 else (r["g"], r["h"])) == k and r["l"] != pos_label]
            t_r[k] = [metric_value(refs.ref_cm(pos, neg, t, cfg[0], cfg[1]), metric) for t in tl]
        pos = [r["s"] for r in sr if r["l"] == pos_label]
        neg = [r["s"] for r in sr if r["l"] != pos_label]
        o_r = [metric_value(refs.ref_cm(pos, neg, t, cfg[0], cfg[1]), metric) for t in tl]
        reps.append((t_r, o_r))
    variants = []
    if how == "by_overall":
        variants = [[normalise(t_r, overall, how)[0] for t_r, _ in reps], [normalise(t_r, o_r, how)[0] for t_r, o_r in reps]]
    else:
        variants = [[normalise(t_r, o_r, how)[0] for t_r, o_r in reps]]
    # the faulty by_min formula of known finding D7: each group's replicates divided by that group's own
    # minimum over the replicates
    faulty = None
    if how == "by_min":
        raw = [{k: [fval(v) for v in t_r[k]] for k in keys} for t_r, _ in reps]
        faulty = []
        for r_ in raw:
            fr = {}
            for k in keys:
                fr[k] = []
                for t in range(len(tl)):
                    den = min(x[k][t] for x in raw)
                    fr[k].append(r_[k][t] / den if den != 0 else r_[k][t])
            faulty.append(fr)
    for k in keys:
        for t in range(len(tl)):
            if not judged[t]:
                continue
            est = want[k][t]
            lo, hi = lower[k][t], upper[k][t]
            if not (math.isnan(lo) or math.isnan(hi)) and lo > hi + 1e-12:
                ctx.fail("interval-ordered", dict(case, group=repr(k), threshold=tl[t]), observed=[lo, hi], expected="lower <= upper")
            good, cands = False, []
            for var in variants:
                col = [v[k][t] for v in var]
                if all(math.isnan(c) for c in col):
                    good = True  # no finite replicate: formulas undefined, not judged
                    break
                ref = refs.ref_bootstrap_ci(col, est, alpha, method)
                if ref is None:
                    good = True
                    break
                cands.append(ref)
                if abs(lo - ref[0]) <= 1e-9 * max(1.0, abs(ref[0])) and abs(hi - ref[1]) <= 1e-9 * max(1.0, abs(ref[1])):
                    good = True
                    break
            if good:
                continue
            fm = False
            if faulty is not None:
                colf = [v[k][t] for v in faulty]
                if not all(math.isnan(c) for c in colf):
                    reff = refs.ref_bootstrap_ci(colf, est, alpha, method)
                    if reff is not None:
                        fm = (abs(lo - reff[0]) <= 1e-9 * max(1.0, abs(reff[0])) and abs(hi - reff[1]) <= 1e-9 * max(1.0, abs(reff[1])))
            ctx.fail("interval-is-for-the-normalised-quantity", dict(case, group=repr(k), threshold=tl[t]), observed=[lo, hi],
                     expected=[list(c) for c in cands], faulty_by_min_axis0_match=fm)
            return


def _run_many_groups(item, ctx, b):
    """More than ten groups: positional / lexicographic mix-ups of internal group codes only show from 11 on."""
    ncols, G = item["ncols"], item["ngroups"]
    regions = ["north", "south", "east", "west", "n_e", "s_w"]
    devices = ["phone", "tablet", "pc", "tv"]
    rows = []
    for g_ in range(G):
        # two or three rows per group, labels and scores vary with the group so that metrics differ
        for j in range(2 + g_ % 2):
            r = {"l": 1 if (g_ + j) % 3 else 0, "s": round(((g_ * 7 + j * 5) % 20) / 20.0, 2)}
            if ncols == 1:
                r["g"] = f"g{g_}" if g_ % 2 else str(g_)
            else:
                r["g"], r["h"] = regions[g_ % len(regions)], devices[(g_ // len(regions)) % len(devices)]
            rows.append(r)
    rows = rows[::-1]
    for cfg in CFGS[:2]:
        for metric in ("fnr", "topr", "tp", "accuracy"):
            for threshold, tl in (([0.5, 0.25], [0.5, 0.25]),):
                tab, overall = expected_table(rows, ncols, tl, metric, cfg, 1)
                for how in b["normalize"]:
                    case = {"kind": "many_groups", "groups": G, "ncols": ncols, "metric": metric, "threshold": threshold,
                            "normalize": how, "cfg": list(cfg), "rows": rows[:4] + ["..."]}
                    ctx.state()
                    ctx.nontrivial()
                    ok, bf = guarded(ctx, "showbias", case, call_showbias, rows, ncols, metric, threshold, how, cfg, 1)
                    ctx.tick()
                    if ok:
                        want, judged = normalise(tab, overall, how)
                        compare_table(ctx, case, bf.values, want, judged, tl,
                                      "entry-is-metric-of-that-groups-rows" if how is None else "normalised-entry")
    ctx.sample({"kind": "many_groups", "groups": G, "ncols": ncols})
    return None


def _run_bigint(item, ctx, b):
    """int64 score column beyond 2^53 with integer thresholds: neighbouring integers must stay distinct."""
    base, ncols = item["base"], item["ncols"]
    offs = [0, 1, 2, 3, 1, 5, 2, 0]
    labs = [1, 0, 1, 0, 0, 1, 1, 0]
    rows = []
    for i, (o, l) in enumerate(zip(offs, labs)):
        r = {"l": l, "s": base + o, "g": ("x", "y_z", "x")[i % 3]}
        if ncols == 2:
            r["h"] = ("p", "q")[i % 2]
        rows.append(r)
    tl = [base + 2, base + 1, base + 3, base]
    for cfg in CFGS:
        for metric in ("tpr", "fpr", "tp", "tn", "accuracy"):
            for threshold, tlist in ((tl, tl), (np.array(tl, dtype=np.int64), tl), (tl[0], [tl[0]])):
                tab, overall = expected_table(rows, ncols, tlist, metric, cfg, 1)
                for how in (None, "by_overall"):
                    case = {"kind": "bigint", "rows": rows, "ncols": ncols, "metric": metric, "threshold": tlist, "normalize": how,
                            "threshold_type": type(threshold).__name__, "cfg": list(cfg), "pos_label": 1}
                    ctx.state()
                    ctx.nontrivial()
                    ok, bf = guarded(ctx, "showbias", case, call_showbias, rows, ncols, metric, threshold, how, cfg, 1)
                    ctx.tick()
                    if not ok:
                        continue
                    want, judged = normalise(tab, overall, how)
                    got_cols = [int(c) for c in bf.values.columns.tolist()]
                    if got_cols != tlist:
                        ctx.fail("columns-are-the-thresholds", case, observed=got_cols, expected=tlist)
                        continue
                    got = table_of(bf.values)
                    if set(got) != set(want):
                        ctx.fail("rows-labelled-with-the-groups-of-their-rows", case, observed=sorted(map(repr, got)), expected=sorted(map(repr, want)))
                        continue
                    for key in want:
                        for t in range(len(tlist)):
                            g, w = got[key][t], want[key][t]
                            if judged[t] and not ((math.isnan(g) and math.isnan(w)) or abs(g - w) <= 1e-12 * max(1.0, abs(w))):
                                ctx.fail("entry-is-metric-of-that-groups-rows" if how is None else "normalised-entry",
                                         dict(case, group=repr(key), threshold_value=tlist[t]), observed=g, expected=w)
                                break
    ctx.sample({"kind": "bigint", "base": base, "ncols": ncols})
    return None


def _run_wide_groups(item, ctx, b):
    """Several group columns with many distinct values each: the product of the numbers of values per column
    exceeds 2^31 although only nvals groups are present."""
    from score_analysis import showbias

    nv, ncols = item["nvals"], item["ncols"]
    mult = [1, 7, 11][:ncols]
    names = ["g%d" % j for j in range(ncols)]
    keys, labs, scs = [], [], []
    for i in range(nv):
        key = tuple("%s%05d" % ("abc"[j], (i * mult[j]) % nv) for j in range(ncols))
        for r in range(2 + (i % 3 == 0)):
            keys.append(key)
            labs.append(1 if (i + r) % 2 else 0)
            scs.append(((i * 13 + r * 29) % 97) / 97.0)
    df = pd.DataFrame({names[j]: [k[j] for k in keys] for j in range(ncols)})
    df["lab"], df["sc"] = labs, scs
    groups = {}
    for k, l, s_ in zip(keys, labs, scs):
        groups.setdefault(k, ([], []))[0 if l == 1 else 1].append(s_)
    tl = [0.5, 0.25]
    for cfg in CFGS[:2]:
        for metric in ("tpr", "tn"):
            case = {"kind": "wide_groups", "values_per_column": nv, "ncols": ncols, "groups": len(groups), "metric": metric,
                    "cfg": list(cfg), "threshold": tl}
            ctx.state()
            ctx.nontrivial()
            ok, bf = guarded(ctx, "showbias", case, lambda: showbias(df, names, "lab", "sc", metric, threshold=tl, score_class=cfg[0],
                                                                     equal_class=cfg[1]))
            ctx.tick(len(groups))
            if not ok:
                continue
            got = table_of(bf.values)
            if len(bf.values.index) != len(groups) or set(got) != set(groups):
                extra = sorted(map(repr, set(got) - set(groups)))[:3]
                ctx.fail("rows-labelled-with-the-groups-of-their-rows", case, observed={"rows": len(bf.values.index), "unknown_labels": extra},
                         expected={"rows": len(groups)})
                continue
            for key, (p_, n_) in groups.items():
                want = [fval(metric_value(refs.ref_cm(p_, n_, t, cfg[0], cfg[1]), metric)) for t in tl]
                g = got[key]
                if not all((math.isnan(a) and math.isnan(w)) or abs(a - w) <= 1e-12 for a, w in zip(g, want)):
                    ctx.fail("entry-is-metric-of-that-groups-rows", dict(case, group=repr(key)), observed=g, expected=want)
                    break
    ctx.sample({"kind": "wide_groups", "values_per_column": nv, "ncols": ncols, "groups": len(groups)})
    return None


def _run_interval_metric(item, ctx, b):
    """
    The interval-valued metric names (tpr_ci, fnr_ci, fpr_ci: each entry is a pair [low, high], and the low end is
    negative for rare events): values, normalisation by the whole-data pair (component-wise, which may be negative) and
    bootstrap intervals under a deterministic menu sampler.
    """
    from score_analysis import BootstrapConfig, GroupScores, showbias

    metric = item["metric"]
    count_of = {"fnr_ci": ("fn", "p"), "tpr_ci": ("tp", "p"), "fpr_ci": ("fp", "n")}[metric]
    rows = []
    for g_, npos, nneg, fn_, fp_ in (("north", 30, 12, 1, 1), ("south", 20, 25, 1, 0), ("west", 10, 9, 0, 2)):
        for i in range(npos):
            rows.append((g_, 1, 0.2 if i < fn_ else 0.6 + 0.3 * i / npos))
        for i in range(nneg):
            rows.append((g_, 0, 0.8 if i < fp_ else 0.1 + 0.3 * i / nneg))
    rows = rows[::3] + rows[1::3] + rows[2::3]
    df = pd.DataFrame({"grp": [r[0] for r in rows], "lab": [r[1] for r in rows], "sc": [r[2] for r in rows]})
    tl = [0.5, 0.4]
    groups = sorted({r[0] for r in rows})

    def pairs(sub_rows_):
        """{group: [[low, high] per threshold]} and the whole-data pairs, by counting + the normal approximation"""
        out = {}
        for key in groups + [None]:
            sel = [r for r in sub_rows_ if key is None or r[0] == key]
            pos_ = [r[2] for r in sel if r[1] == 1]
            neg_ = [r[2] for r in sel if r[1] != 1]
            per_t = []
            for t in tl:
                (tp, fn), (fp, tn) = refs.ref_cm(pos_, neg_, t, "pos", "pos")
                cnt = {"tp": tp, "fn": fn, "fp": fp, "p": tp + fn, "n": fp + tn}
                per_t.append(list(refs.ref_binomial_ci(float(cnt[count_of[0]]), float(cnt[count_of[1]]), 0.05)))
            out[key] = per_t
        return out

    def norm(v, d):
        return v / d if d != 0 else v

    base = pairs(rows)
    # menu of sub-samples: the data itself, the data without every 4th row, the data with the first 15 rows twice
    menus = [rows, [r for i, r in enumerate(rows) if i % 4], rows + rows[:15]]

    def to_gs(rs):
        return GroupScores.from_labels(labels=np.array([r[1] for r in rs]), scores=np.array([r[2] for r in rs]),
                                       groups=np.array([r[0] for r in rs], dtype=object), pos_label=1)

    for how in (None, "by_overall"):
        for method in ("quantile", "bc"):
            for seq in ((0, 1, 2), (1, 2, 2), (2, 0, 1, 1)):
                calls = []

                def sampler(s_, _seq=seq, _c=calls):
                    _c.append(1)
                    return to_gs(menus[_seq[len(_c) - 1]])

                cfgobj = BootstrapConfig(nb_samples=len(seq), bootstrap_method=method, sampling_method=sampler)
                case = {"kind": "interval_metric", "metric": metric, "normalize": how, "method": method, "sequence": list(seq), "threshold": tl,
                        "overall_pairs": base[None]}
                ctx.state()
                ctx.nontrivial()
                ok, bf = guarded(ctx, "showbias-bootstrap", case, lambda: showbias(df, "grp", "lab", "sc", metric, threshold=tl, normalize=how,
                                                                                   bootstrap_ci=True, bootstrap_config=cfgobj, alpha=0.2))
                ctx.tick()
                if not ok:
                    continue
                if list(bf.values.index) != groups:
                    ctx.fail("rows-labelled-with-the-groups-of-their-rows", case, observed=list(bf.values.index), expected=groups)
                    continue
                vals = np.asarray(bf.values.values.tolist(), dtype=float)
                lower = np.asarray(bf.lower.values.tolist(), dtype=float)
                upper = np.asarray(bf.upper.values.tolist(), dtype=float)
                reps = [pairs(menus[j]) for j in seq]
                bad = False
                for gi, g_ in enumerate(groups):
                    for ti in range(len(tl)):
                        for c_ in (0, 1):
                            d_ = base[None][ti][c_] if how else 1.0
                            want_v = norm(base[g_][ti][c_], d_) if how else base[g_][ti][c_]
                            if abs(vals[gi, ti, c_] - want_v) > 1e-9 * max(1.0, abs(want_v)):
                                ctx.fail("normalised-entry" if how else "entry-is-metric-of-that-groups-rows", dict(case, group=g_, threshold=tl[ti], component=c_),
                                         observed=float(vals[gi, ti, c_]), expected=want_v)
                                bad = True
                                break
                            col = [norm(r[g_][ti][c_], d_) if how else r[g_][ti][c_] for r in reps]
                            want_ci = refs.ref_bootstrap_ci(col, want_v, 0.2, method)
                            lo_, hi_ = float(lower[gi, ti, c_]), float(upper[gi, ti, c_])
                            if want_ci is not None and not (abs(lo_ - want_ci[0]) <= 1e-9 * max(1.0, abs(want_ci[0]))
                                                             and abs(hi_ - want_ci[1]) <= 1e-9 * max(1.0, abs(want_ci[1]))):
                                ctx.fail("interval-is-for-the-normalised-quantity", dict(case, group=g_, threshold=tl[ti], component=c_),
                                         observed=[lo_, hi_], expected=list(want_ci))
                                bad = True
                                break
                            if not lo_ <= hi_ + 1e-12:
                                ctx.fail("lower-le-upper", dict(case, group=g_, threshold=tl[ti], component=c_), observed=[lo_, hi_], expected="lower <= upper")
                                bad = True
                                break
                        if bad:
                            break
                    if bad:
                        break
                ctx.outcome((metric, how, method, seq))
    ctx.sample({"kind": "interval_metric", "metric": metric, "rows": len(rows), "overall_pairs": base[None]})
    return None


def _run_many_columns(item, ctx, b):
    """Few groups described by many attribute columns with many levels each (product of level counts > 2^64)."""
    from score_analysis import showbias

    ncols, L, G = item["ncols"], item["levels"], item["groups"]
    names = ["c%02d" % j for j in range(ncols)]
    keys, labs, scs = [], [], []
    for g_ in range(G):
        # every column takes all L levels over the groups; neighbouring groups differ in the leading columns only
        # groups of one block of 8 differ in the first column only (blocks of 4: also in the second, blocks differ in the
        # trailing columns): whatever part of a combined code is lost, some pair of groups differs only there
        blk = g_ // 8
        key = tuple(["v%03d" % ((g_ % 8) * 3 % L), "v%03d" % ((g_ % 8) // 4 + blk % 2)]
                    + ["v%03d" % ((blk * (j + 1) * 7 + j) % L) for j in range(2, ncols - 1)] + ["v%03d" % (blk % L)])
        for r in range(2 + (g_ % 3 == 0) * 4):
            keys.append(key)
            labs.append(1 if (g_ + r) % 2 else 0)
            scs.append(((g_ * 13 + r * 29) % 97) / 97.0)
    # make sure every level of every column occurs (so that the product of level counts is L ** ncols)
    for lv in range(L):
        key = tuple("v%03d" % ((lv + j) % L) for j in range(ncols))
        for r in range(2):
            keys.append(key)
            labs.append(r)
            scs.append(((lv * 5 + r * 31) % 89) / 89.0)
    order = sorted(range(len(keys)), key=lambda i: (i * 7919) % len(keys))
    keys, labs, scs = [keys[i] for i in order], [labs[i] for i in order], [scs[i] for i in order]
    df = pd.DataFrame({names[j]: [k[j] for k in keys] for j in range(ncols)})
    df["lab"], df["sc"] = labs, scs
    groups = {}
    for k, l, s_ in zip(keys, labs, scs):
        groups.setdefault(k, ([], []))[0 if l == 1 else 1].append(s_)
    tl = [0.5, 0.25, 0.75]
    for cfg in CFGS[:2]:
        for metric in ("tpr", "fpr"):
            for how in (None, "by_overall"):
                case = {"kind": "many_columns", "ncols": ncols, "levels_per_column": L, "groups": len(groups), "rows": len(keys),
                        "metric": metric, "normalize": how, "cfg": list(cfg), "threshold": tl}
                ctx.state()
                ctx.nontrivial()
                ok, bf = guarded(ctx, "showbias", case, lambda: showbias(df, names, "lab", "sc", metric, threshold=tl, normalize=how,
                                                                         score_class=cfg[0], equal_class=cfg[1]))
                ctx.tick(len(groups))
                if not ok:
                    continue
                got = table_of(bf.values)
                if len(bf.values.index) != len(groups) or set(got) != set(groups):
                    ctx.fail("rows-labelled-with-the-groups-of-their-rows", case, observed={"rows": len(bf.values.index)}, expected={"rows": len(groups)})
                    continue
                allp = [s_ for s_, l in zip(scs, labs) if l == 1]
                alln = [s_ for s_, l in zip(scs, labs) if l != 1]
                overall = [metric_value(refs.ref_cm(allp, alln, t, cfg[0], cfg[1]), metric) for t in tl]
                for key, (p_, n_) in groups.items():
                    raw = [metric_value(refs.ref_cm(p_, n_, t, cfg[0], cfg[1]), metric) for t in tl]
                    want = [fval(v) if how is None or v is None or o in (None, 0) else float(v / o) for v, o in zip(raw, overall)]
                    g = got[key]
                    if how is not None and any(v is None for v in raw):
                        continue
                    if not all((math.isnan(a) and math.isnan(w)) or abs(a - w) <= 1e-12 * max(1.0, abs(w)) for a, w in zip(g, want)):
                        ctx.fail("entry-is-metric-of-that-groups-rows" if how is None else "normalised-entry", dict(case, group=repr(key)),
                                 observed=g, expected=want)
                        break
    ctx.sample({"kind": "many_columns", "ncols": ncols, "levels": L, "groups": len(groups)})
    return None


def _run_nul(item, ctx, b):
    """Group values that differ only by trailing NUL characters ('any characters'): known finding D15."""
    ncols = item["ncols"]
    rows = []
    for g_, l, s_ in (("a", 1, 0.9), ("a\x00", 0, 0.2), ("a", 1, 0.4), ("a\x00", 0, 0.7), ("b", 1, 0.6), ("b", 0, 0.3)):
        r = {"g": g_, "l": l, "s": s_}
        if ncols == 2:
            r["h"] = "x"
        rows.append(r)
    for metric in ("tpr", "tnr", "accuracy"):
        tl = [0.5, 0.25]
        tab, overall = expected_table(rows, ncols, tl, metric, CFGS[0], 1)
        case = {"kind": "nul", "rows": rows, "ncols": ncols, "metric": metric, "threshold": tl, "normalize": None, "cfg": list(CFGS[0]),
                "pos_label": 1}
        ctx.state()
        ctx.nontrivial()
        ok, bf = guarded(ctx, "showbias", case, call_showbias, rows, ncols, metric, tl, None, CFGS[0], 1)
        ctx.tick()
        if ok:
            want, judged = normalise(tab, overall, None)
            compare_table(ctx, case, bf.values, want, judged, tl, "entry-is-metric-of-that-groups-rows")
    ctx.sample({"kind": "nul", "ncols": ncols})
    return None


def _run_errors(ctx):
    from score_analysis import showbias

    df = pd.DataFrame({"g": ["a", "b"], "l": [1, 0], "s": [0.2, 0.8]})
    ctx.state()
    for kw, exc in ((dict(group_columns="nope"), AssertionError), (dict(label_column="nope"), AssertionError),
                    (dict(score_column="nope"), AssertionError), (dict(normalize="by_max"), ValueError)):
        args = dict(data=df, group_columns="g", label_column="l", score_column="s", metric="fnr", threshold=0.5)
        args.update(kw)
        ctx.tick()
        try:
            showbias(**args)
            ctx.fail("invalid-input-raises", {"kw": {k: str(v) for k, v in kw.items()}}, observed="no exception", expected=exc.__name__)
        except exc:
            pass
        except Exception as e:  # noqa
            ctx.fail("invalid-input-raises", {"kw": {k: str(v) for k, v in kw.items()}}, observed=repr(e), expected=exc.__name__)
    return None


def _m_bymin(rec):
    """D7: by_min + bootstrap: interval equals the one the axis-0 minimum yields."""
    return (rec["clause"] == "interval-is-for-the-normalised-quantity" and rec["case"].get("normalize") == "by_min"
            and rec.get("faulty_by_min_axis0_match") is True)


def _m_nul(rec):
    """D15: group values with trailing NUL characters lose them in numpy's fixed-width string dtype."""
    return (rec["case"].get("kind") == "nul" and rec["clause"] in ("rows-labelled-with-the-groups-of-their-rows",
                                                                    "entry-is-metric-of-that-groups-rows"))


MATCHERS = {"c18_bymin_axis0": _m_bymin, "c18_trailing_nul": _m_nul}

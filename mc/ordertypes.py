"""
Engine E1: the order-type state space (DESIGN.md §2.1).

An abstract dataset is a tuple of blocks ((a_1,b_1),...,(a_m,b_m)), a_i+b_i>=1:
a_i positives and b_i negatives share the i-th smallest score value.
"""

from __future__ import annotations

import itertools
import math
import random
from functools import lru_cache

CFGS = [("pos", "pos"), ("pos", "neg"), ("neg", "pos"), ("neg", "neg")]


@lru_cache(maxsize=None)
def _blocks_exact(p, q):
    """All block sequences with exactly p positives and q negatives."""
    if p == 0 and q == 0:
        return ((),)
    out = []
    for a in range(p + 1):
        for b in range(q + 1):
            if a + b == 0:
                continue
            for rest in _blocks_exact(p - a, q - b):
                out.append(((a, b),) + rest)
    return tuple(out)


def order_types(maxp, maxq, minp=0, minq=0, tie_free=False, no_cross_ties=False):
    """All abstract datasets with minp<=P<=maxp, minq<=Q<=maxq, simplest first."""
    out = []
    for total in range(maxp + maxq + 1):
        for p in range(max(minp, total - maxq), min(maxp, total) + 1):
            q = total - p
            if q < minq or q > maxq:
                continue
            for bl in _blocks_exact(p, q):
                if tie_free and any(a + b > 1 for a, b in bl):
                    continue
                if no_cross_ties and any(a > 0 and b > 0 for a, b in bl):
                    continue
                out.append(bl)
    # simplest first: fewer scores, then fewer ties
    out.sort(key=lambda bl: (sum(a + b for a, b in bl), -len(bl)))
    return out


def count_order_types(maxp, maxq):
    return sum(
        len(_blocks_exact(p, q)) for p in range(maxp + 1) for q in range(maxq + 1)
    )


# --------------------------------------------------------------------------- #
# concretisations
# --------------------------------------------------------------------------- #
_IRREGULAR = [0.0, 1.0, 2.5, 3.0, 7.0, 7.5, 9.0, 12.0, 12.5, 20.0, 21.0, 33.0, 34.5, 36.0, 40.5, 41.0, 47.0, 50.5, 52.0, 53.5,
              60.0, 61.0, 63.5, 70.0, 72.5, 80.0, 81.0, 90.5]
_INTS = [-3, -1, 0, 2, 3, 7, 8, 10, 15, 16, 20, 31, 40]


def grid(kind, m, seed=0):
    """m strictly increasing values of the requested kind."""
    if m == 0:
        return []
    if kind == "irregular":
        return _IRREGULAR[:m]
    if kind == "negated":
        return [-v for v in reversed(_IRREGULAR[:m])]
    if kind == "int":
        return _INTS[:m]
    if kind == "uint":  # unsigned integer scores, smallest value 0
        return [0, 1, 3, 4, 7, 9, 12, 20, 21, 33, 40, 41, 50][:m]
    if kind == "unit":  # inside [0,1], for FraudScores-like uses
        return [i / 8.0 for i in range(m)]
    if kind == "dyadic":
        rnd = random.Random(1000003 * seed + m)
        vals = sorted(rnd.sample(range(-512, 513), m))  # multiples of 1/8 in [-64,64]
        return [v / 8.0 for v in vals]
    if kind == "symmetric":  # symmetric about 0 (the two middle values sum to exactly 0; contains 0 when m is odd)
        half = [0.5, 2.0, 2.75, 5.0, 6.5, 9.0, 11.0][: m // 2]
        return [-v for v in reversed(half)] + ([0.0] if m % 2 else []) + half
    if kind == "ulp_pow2":  # adjacent floats on both sides of a power of two (the spacing changes at 1.0)
        below, above = [], []
        v = 1.0
        for _ in range(m // 2):
            v = math.nextafter(v, 0.0)
            below.append(v)
        v = 1.0
        for _ in range(m - m // 2 - 1):
            v = math.nextafter(v, 2.0)
            above.append(v)
        return sorted(below) + [1.0] + above
    if kind == "ulp":
        base = 1.5
        out = [base]
        for _ in range(m - 1):
            out.append(math.nextafter(out[-1], math.inf))
        return out
    raise ValueError(kind)


def concretise(blocks, kind, seed=0):
    """-> (pos list, neg list, distinct values) for an abstract dataset."""
    vals = grid(kind, len(blocks), seed)
    pos, neg = [], []
    for v, (a, b) in zip(vals, blocks):
        pos += [v] * a
        neg += [v] * b
    return pos, neg, vals


def string_kinds(value):
    """One option string in the ways a caller may hold it: the literal, an equal string built at run time (not the
    interned literal object), and a NumPy string scalar."""
    import numpy as np

    built = "".join([value[: len(value) // 2], value[len(value) // 2:]])
    return [("literal", value), ("built-at-run-time", built), ("np.str_", np.str_(value))]


MIXED_KINDS = ["mixed", "mixed_narrow", "mixed_narrow_neg", "mixed_f32"]


def concretise_mixed(blocks, kind):
    """
    The two classes are stored in *different* dtypes. -> (pos, neg, vals, pos_array, neg_array); the lists hold
    the exact values (Python int/float), the arrays are unsorted and have the dtypes under test.
      mixed            int64 positives, float64 negatives with non-integral values where the order type allows
      mixed_narrow     uint8 positives, int64 negatives whose extreme values (-5, 300) lie outside the uint8 range
      mixed_narrow_neg the same with the roles of the classes exchanged
      mixed_f32        float32 positives, float64 negatives that are not representable in float32
    """
    import numpy as np

    m = len(blocks)
    pos, neg, vals = [], [], []
    for i, (a, c) in enumerate(blocks):
        if kind == "mixed":
            v = 2 * i if a else 2 * i + 0.5
        elif kind in ("mixed_narrow", "mixed_narrow_neg"):
            narrow_here = a if kind == "mixed_narrow" else c
            v = 10 * i + 5
            if i == 0:
                v = 3 if narrow_here else -5
            if i == m - 1 and m > 1:
                v = 250 if narrow_here else 300
        elif kind == "mixed_f32":
            v = float(i) + 0.5 if a else float(i) + 0.1  # k + 0.1 is not a float32 value
        else:
            raise ValueError(kind)
        vals.append(v)
        pos += [v] * a
        neg += [v] * c
    dts = {"mixed": (np.int64, np.float64), "mixed_narrow": (np.uint8, np.int64), "mixed_narrow_neg": (np.int64, np.uint8),
           "mixed_f32": (np.float32, np.float64)}[kind]
    return pos, neg, vals, np.array(pos[::-1], dtype=dts[0]), np.array(neg[::-1], dtype=dts[1])


# float thresholds equal to the limits of the integer types (the customary "beyond everything" values for integer scores)
INT_SENTINELS = [s_ * 2.0 ** k_ for k_ in (7, 8, 15, 16, 31, 32, 63, 64) for s_ in (1.0, -1.0)]


def threshold_alphabet(vals):
    """Complete relative alphabet for m distinct values: 4m+3 points (m>=1)."""
    vals = [float(v) for v in vals]
    if not vals:
        return [-math.inf, -1.0, 0.0, 1.0, math.inf]
    out = [-math.inf, vals[0] - 1.0]
    for i, v in enumerate(vals):
        out.append(math.nextafter(v, -math.inf))
        out.append(v)
        out.append(math.nextafter(v, math.inf))
        if i + 1 < len(vals):
            mid = (v + vals[i + 1]) / 2.0
            if v < mid < vals[i + 1]:
                out.append(mid)
    out += [vals[-1] + 1.0, math.inf]
    # ulp grids produce duplicates (v+ulp == next v): keep order, drop repeats
    seen, res = set(), []
    for t in out:
        if t not in seen:
            seen.add(t)
            res.append(t)
    return res


def target_alphabet(n, seed=0, quarter=True):
    """Targets for a population of n: on / off the k/n grid, out of range."""
    out = [-0.5, -1e-9, 0.0, 1.0, 1.0 + 1e-9, 1.5, 1.0 / 3.0]
    rnd = random.Random(7919 * seed + n)
    out.append(round(rnd.uniform(0.02, 0.98), 6))
    # quarter points plus points a hair off the k/n grid (tolerance-based snapping must not swallow them)
    fr = (0.0, 1e-6, 0.25, 0.5, 0.75, 1 - 1e-6) if quarter else (0.0, 0.5)
    for k in range(n + 1):
        for f in fr:
            r = (k + f) / n if n else 0.0
            if 0.0 <= r <= 1.0:
                out.append(r)
    if quarter and n:
        # r*n within 1e-9 of an integer without being one (dyadic offsets, exact): snapping of the interpolation
        # weight would turn 'linear' into 'lower' / 'higher' there
        for k in sorted({1, n // 2, n - 1}):
            for f in (2.0 ** -31, 2.0 ** -34, 1 - 2.0 ** -31, 1 - 2.0 ** -34):
                r = (k + f) / n
                if 0.0 <= r <= 1.0:
                    out.append(r)
    seen, res = set(), []
    for t in out:
        if t not in seen:
            seen.add(t)
            res.append(t)
    return res


def permutations_of(lst, limit=4):
    """All permutations for short lists; reversed + one rotation beyond."""
    lst = list(lst)
    if len(lst) <= limit:
        seen, out = set(), []
        for p in itertools.permutations(lst):
            if p not in seen:
                seen.add(p)
                out.append(list(p))
        return out
    return [lst, lst[::-1], lst[1:] + lst[:1]]


def ulps(x, k=4):
    """k ulp of |x| (at least the smallest subnormal)."""
    x = abs(float(x))
    if math.isinf(x) or math.isnan(x):
        return 0.0
    return k * (math.nextafter(x, math.inf) - x)


# --------------------------------------------------------------------------- #
# scale ladder: a few much larger, fully deterministic datasets
# --------------------------------------------------------------------------- #
LADDER_QUICK = [17, 64, 101, 257, 1000, 4097]
LADDER_THOROUGH = [17, 33, 64, 100, 101, 128, 255, 257, 513, 1000, 1025, 4097, 20001, 100003]


def ladder_dataset(n, tie_free=False, salt=0):
    """
    n positives and about 0.8*n negatives with overlapping ranges; values are multiples of 1/8 produced by a
    multiplicative hash (ties within and across classes unless tie_free). Bounded exhaustive enumeration stops at a
    handful of scores; the ladder probes sizes around typical internal switches (powers of two, 100, 1000, 10^5).
    """
    m = max(1, (4 * n) // 5)
    if tie_free:
        # distinct values: positives on odd multiples of 1/8 shifted up, negatives on even multiples
        pos = [((i * 2654435761 + salt) % (8 * n)) * 2 + 1 for i in range(n)]
        neg = [((i * 40503 + 7 * salt) % (8 * n)) * 2 for i in range(m)]
        pos, neg = sorted(set(pos)), sorted(set(neg))
        pos = [(v + 4 * n) / 8.0 for v in pos]
        neg = [v / 8.0 for v in neg]
        return pos, neg
    span = max(8, n // 2)
    pos = [(((i * 2654435761 + salt) >> 3) % span + span // 3) / 8.0 for i in range(n)]
    neg = [(((i * 40503 + 11 + salt) >> 2) % span) / 8.0 for i in range(m)]
    return pos, neg


def ladder_thresholds(pos, neg, k=24):
    """About 4k thresholds spread over the value range: scores at quantile positions, ulp neighbours, midpoints."""
    vals = sorted(set(pos) | set(neg))
    picks = sorted({vals[(len(vals) - 1) * j // max(1, k - 1)] for j in range(k)})
    out = [-math.inf, picks[0] - 1.0]
    for i, v in enumerate(picks):
        out += [math.nextafter(v, -math.inf), v, math.nextafter(v, math.inf)]
        if i + 1 < len(picks):
            out.append((v + picks[i + 1]) / 2.0)
    out += [picks[-1] + 1.0, math.inf]
    return out

#!/bin/bash
# tools/seed_batch.sh <dir> <prefix> C05 C07 ...   verify + file every change<i> of the given properties
dir=$1; prefix=$2; shift 2
for p in "$@"; do
  for c in $dir/out_$p/change*; do
    [ -f "$c/patch.diff" ] || continue
    i=$(basename $c | sed 's/change//')
    /verif/tools/seed_verify.py $c $p --id ${prefix}-$p-$i &
  done
done
wait

"""
Objects derived from a Scores object are Scores objects like any other: swap(), bootstrap samples
(replacement with and without smoothing, single pass).  Used by several E1 checks as extra states.
"""
import numpy as np


def group_twin(s):
    """
    A GroupScores object (a subclass: every Scores query applies) holding the same scores, built from *unsorted*
    arrays of the same dtype, with group labels whose alphabetical order is opposite to the order of the scores.
    """
    from score_analysis import GroupScores

    pos, neg = np.asarray(s.pos)[::-1].copy(), np.asarray(s.neg)[::-1].copy()
    # after the reversal the first half holds the larger scores: it gets the alphabetically *first* label
    pg = np.array(["a" if i < (len(pos) + 1) // 2 else "zz" for i in range(len(pos))], dtype=object)
    ng = np.array(["a" if i < (len(neg) + 1) // 2 else "zz" for i in range(len(neg))], dtype=object)
    # (GroupScores does not support easy samples: the twin holds the scored samples only)
    return GroupScores(pos=pos, neg=neg, pos_groups=pg, neg_groups=ng, score_class=s.score_class, equal_class=s.equal_class)


def derived_objects(s, seed=0, with_swap=True):
    """[(how, object)] - the global RNG state is restored afterwards."""
    from score_analysis import BootstrapConfig

    out = []
    try:
        g = group_twin(s)
        out.append(("GroupScores twin (unsorted input)", g))
    except Exception:  # noqa
        g = None
    if g is not None and len(s.pos) and len(s.neg):
        st = np.random.get_state()
        try:
            for k, cfg in enumerate((
                BootstrapConfig(sampling_method="single_pass", stratified_sampling="by_group"),
                BootstrapConfig(sampling_method="replacement", stratified_sampling="by_group"),
            )):
                np.random.seed(1000 * seed + 31 * k + len(s.neg))
                try:
                    out.append((f"GroupScores twin.bootstrap_sample({cfg.sampling_method}, stratified={cfg.stratified_sampling})",
                                g.bootstrap_sample(cfg)))
                except Exception:  # noqa
                    pass
        finally:
            np.random.set_state(st)
    if with_swap:
        try:
            out.append(("swap()", s.swap()))
        except Exception:  # noqa - the caller's own clauses report construction problems
            pass
    if len(s.pos) and len(s.neg):
        st = np.random.get_state()
        try:
            for k, cfg in enumerate((
                BootstrapConfig(sampling_method="replacement", smoothing=True),
                BootstrapConfig(sampling_method="dynamic", stratified_sampling="by_label", smoothing=True),
                BootstrapConfig(sampling_method="replacement"),
                BootstrapConfig(sampling_method="single_pass", stratified_sampling="by_label"),
            )):
                np.random.seed(1000 * seed + 17 * k + len(s.pos))
                try:
                    out.append((f"bootstrap_sample({cfg.sampling_method}, stratified={cfg.stratified_sampling}, "
                                f"smoothing={cfg.smoothing})", s.bootstrap_sample(cfg)))
                except Exception:  # noqa
                    pass
        finally:
            np.random.set_state(st)
    return out


def check_input_independence(ctx, case, pos, neg, kwargs, query):
    """
    A default-constructed Scores object (is_sorted=False) owns a sorted copy of its inputs: when the caller
    afterwards overwrites the ndarrays it passed in (sorted or unsorted), `query(obj)` must not change.
    """
    from score_analysis import Scores
    from mc.opgraph import canon

    for order in ("sorted", "unsorted"):
        a = np.array(sorted(pos) if order == "sorted" else list(pos)[::-1], dtype=float)
        b = np.array(sorted(neg) if order == "sorted" else list(neg)[::-1], dtype=float)
        try:
            obj = Scores(a, b, **kwargs)
            before = canon(query(obj))
            if a.size:
                a[...] = a[::-1] * -2.0 + 1.0
            if b.size:
                b[...] = b[::-1] * 0.5 - 4.0
            after = canon(query(obj))
        except Exception as e:  # noqa
            ctx.fail("unexpected-exception:input-independence", dict(case, input_order=order), observed=repr(e), expected="no exception")
            continue
        ctx.tick()
        if before != after:
            ctx.fail("object-independent-of-callers-arrays-after-construction", dict(case, input_order=order),
                     observed=after, expected=before)

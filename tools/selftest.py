#!/venv/bin/python
"""
Self-test of the engines on toy spaces with hand-counted sizes and planted bugs (DESIGN.md §6).
Run by MANIFEST.setup_cmd; exits non-zero if an engine miscounts or misses a planted bug.
"""
import os
import sys

HERE = os.path.dirname(os.path.dirname(os.path.abspath(__file__)))
sys.path.insert(0, HERE)

import numpy as np  # noqa: E402

from mc import harness  # noqa: E402

harness.bind_repo()
from mc import opgraph, ordertypes as ot, rngtree  # noqa: E402


def check(cond, what):
    if not cond:
        print("SELFTEST FAILED:", what)
        sys.exit(1)


# ---- E1: sizes of the order-type spaces (computed by hand / closed form in DESIGN.md §2.1) -------------
check(ot.count_order_types(3, 3) == 504, "order types <= (3,3)")
check(ot.count_order_types(4, 4) == 5136, "order types <= (4,4)")
types = ot.order_types(3, 3)
check(len(types) == len(set(types)) == 504, "order types enumerated once each")
check(len(ot.order_types(2, 2, 1, 1, tie_free=True)) == 2 + 3 + 3 + 6, "tie-free interleavings of <=(2,2)")
pos, neg, vals = ot.concretise(((1, 1), (0, 2)), "irregular")
check((pos, neg) == ([0.0], [0.0, 1.0, 1.0]), "concretisation")
check(len(ot.threshold_alphabet([0.0, 1.0])) == 4 * 2 + 3, "threshold alphabet has 4m+3 points")

# ---- E2: complete answer tree, leaf mass, determinism, divergence ----------------------------------------
leaves, mass = 0, 0.0
for orc, res in rngtree.explore(lambda o: (np.random.binomial(2, 0.5), np.random.binomial(2, 0.25)), twice=True):
    leaves += 1
    mass += orc.prob
    check(not orc.nondeterministic, "deterministic toy function flagged as nondeterministic")
check(leaves == 9 and abs(mass - 1.0) < 1e-12, "binomial x binomial tree: 9 leaves, mass 1")
leaves = sum(1 for _ in rngtree.explore(lambda o: np.random.choice(3, size=2, replace=False), twice=False))
check(leaves == 6, "choice(3, size=2, replace=False): 6 ordered draws")
counter = [0]


def flaky(o):
    counter[0] += 1
    return np.random.binomial(1, 0.5) + counter[0]


check(any(orc.nondeterministic for orc, _ in rngtree.explore(flaky, observe=lambda r: r, twice=True)),
      "planted nondeterminism not detected")
try:
    o = rngtree.Oracle([5])
    with rngtree.owned(o):
        np.random.binomial(1, 0.5)
    check(False, "out-of-range replay choice accepted")
except rngtree.Divergence:
    pass
try:
    with rngtree.owned(rngtree.Oracle()):
        np.random.uniform()
    check(False, "unowned entry point not trapped")
except rngtree.UnownedRNG:
    pass


# ---- E3: fixpoint size and planted hidden state -----------------------------------------------------------------
class Toy:
    def __init__(self):
        self.pos, self.neg = np.array([1.0, 2.0]), np.array([0.0])
        self.nb_easy_pos = self.nb_easy_neg = 0
        from score_analysis.scores import BinaryLabel

        self.score_class = self.equal_class = BinaryLabel.pos
        self.hits = 0

    def honest(self):
        return float(self.pos.sum())

    def leaky(self):
        self.hits += 1  # planted: a query that leaves hidden state and whose answer depends on it
        return self.hits


ctx = harness.Ctx("SELF")
r = opgraph.explore(Toy, dict, [("honest", lambda o, e: o.honest())], opgraph.snapshot_scores, ctx, {}, max_states=8)
check(r["states"] == 1 and r["fixpoint"] and not ctx.viol, "honest toy object: one state, no violation")
ctx = harness.Ctx("SELF")
r = opgraph.explore(Toy, dict, [("leaky", lambda o, e: o.leaky())], opgraph.snapshot_scores, ctx, {}, max_states=4)
check(ctx.viol and not r["fixpoint"], "planted hidden state not reported")

# ---- harness: a listed known finding never occupies a kept slot ----------------------------------------------
ctx = harness.Ctx("SELF")
ctx.matchers = [("K1", lambda rec: rec["case"].get("known") is True)]
for i in range(10):
    ctx.fail("clause", {"known": True, "i": i})
ctx.fail("clause", {"known": False})
check(ctx.known.get("K1") == 10 and len(ctx.viol["clause"]) == 1 and ctx.viol_count["clause"] == 1,
      "known findings must not hide a different violation of the same clause")
print("selftest ok")

"""C20 - synthetic datasets hit their specified operating points and proportions."""

from __future__ import annotations

import itertools
import math
from fractions import Fraction as F

import numpy as np

from mc import refs
from mc import rngtree
from mc.harness import HarnessError, guarded

ID = "C20"
TITLE = "Synthetic datasets hit their specified operating points and proportions"
ENGINE = "array-enumerator"
TECHNIQUE = ("exhaustive enumeration over finite parameter grids on the real code vs plain-Python normal cdf/quantile "
             "and exact rational floor references; RNG answer-tree exploration of sample() with the oracle as rng")
RULE = (
    "state = one parameter tuple of the grid (NormalDataset: mu/sigma/score_class x rate; from_metrics: rates x "
    "supports; Bernoulli: (n, p=j/d); correlated pair: (n, p1, p2, rho)); transition = one API call compared with "
    "the reference (round trip, floor count, validity of the joint distribution) or one leaf of sample()'s answer "
    "tree; non-trivial = rate not 1/2 and sigma != 1 (NormalDataset), n*p not an integer (Bernoulli), rho != 0 "
    "and joint valid (correlated); distinct by construction"
)
ASSUMPTIONS = [
    "continuous parameters replaced by finite grids hitting every branch (rates from 1e-6 to 1-1e-6, invalid rho)",
    "normal cdf/quantile reference: statistics.NormalDist; relative tolerance 1e-9 on round trips",
    "floor(n*p) accepted when computed exactly (rationals) or in floating point",
    "sample(): the rng argument is the answer oracle (n<=3: all answers; shuffle answers: identity and reversal)",
]
MU_POS = [-2.0, 0.0, 1.0, 3.0]
MU_NEG = [None, -1.0, 0.5, 0.0, -0.0]
SIGMA = [0.2, 0.5, 1.0, 3.0, 3.75]
RATES = [1e-6, 1e-3, 0.01, 0.1, 0.25, 0.3, 0.5, 0.77, 0.9, 0.999, 1 - 1e-6]


def bounds(tier):
    if tier == "quick":
        return {"mu_pos": MU_POS, "mu_neg": ["None", -1.0, 0.5], "sigma": SIGMA, "rates": RATES, "supports": [1, 3, 40],
                "bernoulli_max_n": 40, "bernoulli_max_den": 20, "corr_n": [1, 2, 3, 10, 37],
                "corr_p": [0, 0.1, 0.2, 0.5, 0.8, 0.9, 1], "corr_rho": [-1, -0.5, -0.3, 0, 0.3, 0.99, 1]}
    return {"mu_pos": MU_POS, "mu_neg": ["None", -1.0, 0.5], "sigma": SIGMA, "rates": RATES, "supports": [1, 3, 7, 40],
            "bernoulli_max_n": 80, "bernoulli_max_den": 40, "corr_n": [1, 2, 3, 5, 10, 37, 100],
            "corr_p": [0, 0.05, 0.1, 0.2, 0.3, 0.5, 0.8, 0.9, 1], "corr_rho": [-1, -0.7, -0.5, -0.3, -0.1, 0, 0.3, 0.6, 0.99, 1]}


def work(tier, seed):
    b = bounds(tier)
    items = [{"kind": "normal", "mu_pos": m} for m in b["mu_pos"]]
    items += [{"kind": "from_metrics"}]
    items += [{"kind": "bernoulli", "part": i, "parts": 8} for i in range(8)]
    items += [{"kind": "correlated", "p1": p} for p in b["corr_p"]]
    items += [{"kind": "sample"}]
    items += [{"kind": "roc_far"}]
    return items


def rel_close(a, b, tol=1e-9):
    return abs(a - b) <= tol * max(1.0, abs(a), abs(b))


def run(item, ctx, tier, seed):
    from score_analysis.experimental import BernoulliDataset, CorrelatedBernoullilDataset, NormalDataset

    b = bounds(tier)
    if item["kind"] == "normal":
        mp = item["mu_pos"]
        for mn in MU_NEG:
            for sp in b["sigma"]:
                for sn in b["sigma"][::2]:
                    for sc in ("pos", "neg"):
                        ds = NormalDataset(mu_pos=mp, mu_neg=mn, sigma_pos=sp, sigma_neg=sn, score_class=sc)
                        case = {"mu_pos": mp, "mu_neg": mn, "sigma_pos": sp, "sigma_neg": sn, "score_class": sc}
                        ctx.state()
                        mun = -mp if mn is None else mn
                        if ds.mu_neg != mun:
                            ctx.fail("default-mu-neg-is-minus-mu-pos", case, observed=ds.mu_neg, expected=mun)
                        rates = np.array(b["rates"])
                        for nm, mu, si in (("fnr", mp, sp), ("fpr", mun, sn)):
                            setter = getattr(ds, "threshold_at_" + nm)
                            rate = getattr(ds, nm)
                            ok, th = guarded(ctx, "threshold_at_" + nm, case, lambda: np.asarray(setter(rates), dtype=float))
                            ctx.tick()
                            if not ok:
                                continue
                            back = np.asarray(rate(th), dtype=float)
                            for r, t, bk in zip(rates.tolist(), th.tolist(), back.tolist()):
                                ctx.tick()
                                if r != 0.5 and si != 1.0:
                                    ctx.nontrivial()
                                # reference threshold from the plain-Python normal quantile
                                q = refs.ND.inv_cdf(r) if nm == "fnr" else -refs.ND.inv_cdf(r)
                                want_t = mu + si * q
                                if not rel_close(t, want_t, 1e-9):
                                    ctx.fail("threshold-at-rate-is-normal-quantile", dict(case, metric=nm, rate=r), observed=t, expected=want_t)
                                if not rel_close(bk, r, 1e-9) and abs(bk - r) > 1e-12:
                                    ctx.fail("rate-and-threshold-mutually-inverse", dict(case, metric=nm, rate=r), observed=bk, expected=r)
                                # scalar in -> scalar out, same value
                                ts = setter(r)
                                if not isinstance(ts, float) or ts != t:
                                    ctx.fail("scalar-call", dict(case, metric=nm, rate=r), observed=ts, expected=t)
                                rs = rate(t)
                                if not isinstance(rs, float):
                                    ctx.fail("scalar-call", dict(case, metric=nm, threshold=t), observed=type(rs).__name__, expected="float")
                            # threshold -> rate -> threshold
                            ts_ = np.array([mu - 2 * si, mu - 0.3 * si, mu, mu + 1.1 * si])
                            rr = np.asarray(rate(ts_), dtype=float)
                            t2 = np.asarray(setter(rr), dtype=float)
                            ctx.tick()
                            if not np.allclose(t2, ts_, rtol=1e-9, atol=1e-9):
                                ctx.fail("threshold-and-rate-mutually-inverse", dict(case, metric=nm), observed=t2, expected=ts_)
                            want_r = [refs.ND.cdf((x - mu) / si) if nm == "fnr" else 1 - refs.ND.cdf((x - mu) / si) for x in ts_.tolist()]
                            if not np.allclose(rr, want_r, rtol=1e-9, atol=1e-12):
                                ctx.fail("rate-is-normal-cdf", dict(case, metric=nm), observed=rr, expected=want_r)
                        # roc(): rates consistent with thresholds
                        for kw in ({"fnr": rates.copy()}, {"fpr": rates.copy()}):
                            ok, rc = guarded(ctx, "roc", dict(case, given=list(kw)), lambda: ds.roc(**kw))
                            ctx.tick()
                            if not ok:
                                continue
                            # the caller goes on using its grid array: the curve it already holds must not move
                            held = (np.array(rc.fnr, copy=True), np.array(rc.fpr, copy=True), np.array(rc.thresholds, copy=True))
                            list(kw.values())[0][...] = 0.123
                            if not (np.array_equal(held[0], rc.fnr) and np.array_equal(held[1], rc.fpr) and np.array_equal(held[2], rc.thresholds)):
                                ctx.fail("roc-result-independent-of-callers-array", dict(case, given=list(kw)), observed=[rc.fnr, rc.fpr],
                                         expected=[held[0], held[1]])
                                continue
                            th = np.asarray(rc.thresholds, dtype=float)
                            if not (np.allclose(np.asarray(rc.fnr), np.asarray(ds.fnr(th)), rtol=1e-12, atol=0)
                                    and np.allclose(np.asarray(rc.fpr), np.asarray(ds.fpr(th)), rtol=1e-12, atol=0)):
                                ctx.fail("roc-rates-consistent-with-thresholds", dict(case, given=list(kw)),
                                         observed=[rc.fnr, rc.fpr], expected=[ds.fnr(th), ds.fpr(th)])
                            given = list(kw)[0]
                            if not np.allclose(np.asarray(getattr(rc, given)), rates, rtol=1e-9, atol=1e-12):
                                ctx.fail("roc-hits-requested-rates", dict(case, given=given), observed=getattr(rc, given), expected=rates)
                        for bad in ({}, {"fnr": rates, "fpr": rates}):
                            ctx.tick()
                            try:
                                ds.roc(**bad)
                                ctx.fail("roc-needs-exactly-one-axis", dict(case, given=list(bad)), observed="no exception", expected="ValueError")
                            except ValueError:
                                pass
                        # the model is a plain dataclass: after its fields are re-assigned it is the model of the new
                        # parameters (analytic rates, thresholds and roc() of the current fields)
                        try:
                            ds.mu_pos, ds.sigma_pos, ds.mu_neg, ds.sigma_neg = mp + 0.5, sp * 2.5, mun - 0.25, sn * 0.5
                            assigned = True
                        except Exception:  # noqa - a frozen model cannot be updated: nothing to check
                            assigned = False
                        if assigned:
                            c2 = dict(case, history="queries, then mu/sigma fields re-assigned", new=[mp + 0.5, sp * 2.5, mun - 0.25, sn * 0.5])
                            for nm, mu, si in (("fnr", mp + 0.5, sp * 2.5), ("fpr", mun - 0.25, sn * 0.5)):
                                ts_ = np.array([mu - 2 * si, mu - 0.3 * si, mu, mu + 1.1 * si])
                                ok, rr = guarded(ctx, nm, c2, lambda: np.asarray(getattr(ds, nm)(ts_), dtype=float))
                                ctx.tick()
                                want_r = [refs.ND.cdf((x - mu) / si) if nm == "fnr" else 1 - refs.ND.cdf((x - mu) / si) for x in ts_.tolist()]
                                if ok and not np.allclose(rr, want_r, rtol=1e-9, atol=1e-12):
                                    ctx.fail("rate-is-normal-cdf", dict(c2, metric=nm), observed=rr, expected=want_r)
                                ok, th = guarded(ctx, "threshold_at_" + nm, c2, lambda: np.asarray(getattr(ds, "threshold_at_" + nm)(np.array([0.1, 0.5, 0.9])), dtype=float))
                                ctx.tick()
                                want_t = [mu + si * (refs.ND.inv_cdf(r) if nm == "fnr" else -refs.ND.inv_cdf(r)) for r in (0.1, 0.5, 0.9)]
                                if ok and not np.allclose(th, want_t, rtol=1e-9, atol=1e-9):
                                    ctx.fail("threshold-at-rate-is-normal-quantile", dict(c2, metric=nm), observed=th, expected=want_t)
                        ctx.outcome((mp, mn, sp, sn, sc))
        ctx.sample({"kind": "normal", "mu_pos": mp, "mu_neg": MU_NEG, "sigma": b["sigma"], "rates": b["rates"]})
        return None

    if item["kind"] == "roc_far":
        # models far from the origin in units of their spread (|mu| / sigma up to 1e9): a threshold is a rounded double
        # there, so the rates of roc() must be those *at the returned thresholds*, not the requested ones
        rates = np.array([1e-6, 0.01, 0.1, 0.25, 0.5, 0.77, 0.9, 0.999])
        for mp, mn, sp, sn in ((1e6 + 3, 1e6, 1.0, 1.0), (3.0, -4e8, 2.0, 1.5), (-5e5, -5e5 - 2, 0.5, 0.25), (1e9, 1e9 - 1, 1.0, 1.0)):
            for sc in ("pos", "neg"):
                ds = NormalDataset(mu_pos=mp, mu_neg=mn, sigma_pos=sp, sigma_neg=sn, score_class=sc)
                case = {"kind": "roc_far", "mu_pos": mp, "mu_neg": mn, "sigma_pos": sp, "sigma_neg": sn, "score_class": sc}
                ctx.state()
                for kw in ({"fnr": rates.copy()}, {"fpr": rates.copy()}):
                    ok, rc = guarded(ctx, "roc", dict(case, given=list(kw)), lambda: ds.roc(**kw))
                    ctx.tick()
                    ctx.nontrivial()
                    if not ok:
                        continue
                    th = np.asarray(rc.thresholds, dtype=float)
                    if not (np.allclose(np.asarray(rc.fnr), np.asarray(ds.fnr(th)), rtol=1e-12, atol=0)
                            and np.allclose(np.asarray(rc.fpr), np.asarray(ds.fpr(th)), rtol=1e-12, atol=0)):
                        ctx.fail("roc-rates-consistent-with-thresholds", dict(case, given=list(kw)), observed=[rc.fnr, rc.fpr],
                                 expected=[ds.fnr(th), ds.fpr(th)])
                    # and the analytic rates at those thresholds are the normal tail probabilities (exact standardisation)
                    for nm, mu, si in (("fnr", mp, sp), ("fpr", mn, sn)):
                        want = []
                        for x in th.tolist():
                            z = float((F(x) - F(mu)) / F(si))
                            lower_tail = 0.5 * math.erfc(-z / math.sqrt(2.0))  # erfc keeps the deep tails
                            upper_tail = 0.5 * math.erfc(z / math.sqrt(2.0))
                            # (the analytic rates are those of the normal part above: FNR the lower tail of the positives,
                            # FPR the upper tail of the negatives)
                            want.append(lower_tail if nm == "fnr" else upper_tail)
                        got = np.asarray(getattr(rc, nm), dtype=float)
                        if not np.allclose(got, want, rtol=1e-9, atol=1e-300):
                            ctx.fail("rate-is-normal-cdf", dict(case, given=list(kw), metric=nm), observed=got, expected=want)
                ctx.outcome(("roc_far", mp, mn, sc))
        ctx.sample({"kind": "roc_far", "models": 4})
        return None

    if item["kind"] == "from_metrics":
        for fnr, fpr in itertools.product(b["rates"], repeat=2):
            for s1, s2 in itertools.product(b["supports"], [1, 7]):
                for sp, sn in ((1.0, 1.0), (0.5, 3.0)):
                    case = {"fnr": fnr, "fpr": fpr, "fnr_support": s1, "fpr_support": s2, "sigma_pos": sp, "sigma_neg": sn}
                    ctx.state()
                    ctx.tick()
                    if fnr != 0.5 and fpr != 0.5:
                        ctx.nontrivial()
                    ok, ds = guarded(ctx, "from_metrics", case, lambda: NormalDataset.from_metrics(fnr, fpr, s1, s2, sp, sn))
                    if not ok:
                        continue
                    g_fnr, g_fpr = ds.fnr(0.0), ds.fpr(0.0)
                    if not (rel_close(g_fnr, fnr, 1e-9) and rel_close(g_fpr, fpr, 1e-9)):
                        ctx.fail("operating-point-at-threshold-zero", case, observed=[g_fnr, g_fpr], expected=[fnr, fpr])
                    cand = []
                    for sup, rate in ((s1, fnr), (s2, fpr)):
                        exact = math.floor(F(sup) / F(rate))
                        cand.append({exact, int(sup / rate)})
                    ok_n = any(ds.n == a + c for a in cand[0] for c in cand[1])
                    if not ok_n:
                        ctx.fail("implied-sample-sizes", case, observed=ds.n, expected=[sorted(cand[0]), sorted(cand[1])])
                    else:
                        npos = [a for a in cand[0] if any(ds.n == a + c for c in cand[1])]
                        if not any(rel_close(ds.p_pos, a / ds.n, 1e-12) for a in npos):
                            ctx.fail("implied-class-proportion", case, observed=ds.p_pos, expected=[a / ds.n for a in npos])
                    if ds.score_class != "pos" or ds.sigma_pos != sp or ds.sigma_neg != sn:
                        ctx.fail("from-metrics-parameters", case, observed=[ds.score_class, ds.sigma_pos, ds.sigma_neg], expected=["pos", sp, sn])
        ctx.sample({"kind": "from_metrics", "rates": b["rates"], "supports": b["supports"]})
        return None

    if item["kind"] == "bernoulli":
        combos = []
        for n in range(1, b["bernoulli_max_n"] + 1):
            for d in range(1, b["bernoulli_max_den"] + 1):
                for j in range(0, d + 1):
                    if math.gcd(j, d) == 1 or j == 0:
                        combos.append((n, j, d))
        near = []
        if item["part"] == 0:
            # n*p a hair (1e-13 .. 2^-40 relative) below a whole number: far more than rounding, still floor = k - 1
            for n_, k_ in ((1000, 500), (4096, 3072), (37, 11), (100, 29), (7, 7), (640, 1)):
                for rel in (2.0 ** -40, 1e-13, 2.0 ** -44, 3e-12):
                    near.append((n_, k_, rel))
        for n_, k_, rel in near:
            p = (k_ / n_) * (1 - rel)
            exact = math.floor(F(n_) * F(p))
            case = {"n": n_, "p": p, "n_times_p": f"{k_} * (1 - {rel})"}
            ctx.state()
            ctx.tick()
            ctx.nontrivial()
            ok, data = guarded(ctx, "bernoulli-sample", case, lambda: BernoulliDataset(p=p).sample(n_, random=False, rng=rngtree.Oracle()))
            if ok:
                data = np.asarray(data)
                want = {exact, int(math.floor(n_ * p))}
                if data.shape != (n_,) or int(data.sum()) not in want:
                    ctx.fail("bernoulli-floor-of-n-times-p", case, observed=int(data.sum()), expected=sorted(want))
        for n, j, d in combos[item["part"]::item["parts"]]:
            p = j / d
            case = {"n": n, "p": f"{j}/{d}"}
            ctx.state()
            ctx.tick()
            if (n * j) % d:
                ctx.nontrivial()
            for how in ("arg", "field"):
                rng_ = rngtree.Oracle()
                ok, data = guarded(ctx, "bernoulli-sample", case, lambda: (
                    BernoulliDataset(p=p).sample(n, random=False, rng=rng_) if how == "arg"
                    else BernoulliDataset(p=p, n=n).sample(random=False, rng=rng_)))
                if not ok:
                    continue
                data = np.asarray(data)
                want = {math.floor(F(n) * F(j, d)), int(math.floor(n * p))}
                if data.shape != (n,) or not set(data.tolist()) <= {0, 1}:
                    ctx.fail("bernoulli-shape-and-values", case, observed=data, expected=f"{n} values in {{0,1}}")
                elif int(data.sum()) not in want:
                    ctx.fail("bernoulli-floor-of-n-times-p", case, observed=int(data.sum()), expected=sorted(want))
                ctx.outcome((n, int(data.sum())))
                # the returned array is the caller's: overwriting it must not reach later samples (same or other object)
                if data.flags.writeable:
                    data[...] = 1 - data if how == "arg" else 0
        ctx.sample({"kind": "bernoulli", "max_n": b["bernoulli_max_n"], "max_den": b["bernoulli_max_den"]})
        return None

    if item["kind"] == "correlated":
        p1 = item["p1"]
        from decimal import Decimal as D, getcontext

        getcontext().prec = 60
        for p2 in b["corr_p"]:
            rhos = list(b["corr_rho"]) + [-3.0, -1.5, 1.25, 2.0]  # beyond +-1: still a valid joint law when a marginal is 0 or 1
            cc = (1 - p1) * (1 - p2)
            ss = math.sqrt(p1 * p2 * cc)
            if ss > 0:
                # the values of rho at which one of the four joint probabilities vanishes, approached from both
                # sides in steps from far below the resolution of the arithmetic up to 1e-6
                for num in (-cc, 1 - p2 - cc, 1 - p1 - cc, 1 - p1 - p2 - cc):
                    r0 = num / ss
                    if -1.0 <= r0 <= 1.0:
                        rhos += [r0 + sg * dl for dl in (0.0, 1e-14, 1e-13, 5e-13, 2e-12, 1e-11, 1e-10, 1e-9, 1e-6) for sg in (1, -1)]
            for rho in dict.fromkeys(rhos):
                # exact (60 digit) evaluation of the documented formula on the float arguments
                dp1, dp2, drho = D(p1), D(p2), D(rho)
                dc = (1 - dp1) * (1 - dp2)
                da = dc + drho * (dp1 * dp2 * dc).sqrt()
                probs = [float(q) for q in (da, 1 - dp2 - da, 1 - dp1 - da, dp1 + dp2 + da - 1)]
                valid_exactish = all(q >= 0 for q in probs)
                # closer to zero than the rounding of the float evaluation (a few ulps of 1): either answer admissible
                # (an exact zero is decided by rounding as well - unless a marginal is 0 or 1, where the formula is exact)
                borderline = any(0 < abs(q) < 1e-15 for q in probs) or (any(q == 0 for q in probs) and 0 < p1 < 1 and 0 < p2 < 1)
                for n in b["corr_n"]:
                    for random in (False, True):
                        case = {"p1": p1, "p2": p2, "rho": rho, "n": n, "random": random, "joint": probs}
                        ctx.state()
                        ctx.tick()
                        if rho != 0 and valid_exactish:
                            ctx.nontrivial()
                        rng_ = rngtree.Oracle() if not random else np.random.default_rng(seed + n)
                        try:
                            data = CorrelatedBernoullilDataset(p1=p1, p2=p2, rho=rho).sample(n, random=random, rng=rng_)
                            err = None
                        except ValueError as e:
                            data, err = None, e
                        except Exception as e:  # noqa
                            ctx.fail("unexpected-exception:correlated", case, observed=repr(e), expected="ValueError or data")
                            continue
                        if borderline:
                            continue  # validity decided by rounding of a zero probability: either answer admissible
                        if not valid_exactish:
                            if err is None:
                                ctx.fail("invalid-joint-distribution-raises", case, observed="returned data", expected="ValueError")
                            continue
                        if err is not None:
                            ctx.fail("valid-joint-distribution-accepted", case, observed=repr(err), expected="data")
                            continue
                        data = np.asarray(data)
                        if data.shape != (2, n) or not set(data.reshape(-1).tolist()) <= {0, 1}:
                            ctx.fail("correlated-shape-and-values", case, observed=data, expected=f"(2,{n}) in {{0,1}}")
                            continue
                        if not random:
                            m1, m2 = int(data[0].sum()), int(data[1].sum())
                            if abs(m1 - n * p1) > 3 + 1e-9 or abs(m2 - n * p2) > 3 + 1e-9:
                                ctx.fail("marginals-within-three-draws", case, observed=[m1, m2], expected=[n * p1, n * p2])
                            ctx.outcome((p1, p2, rho, n, m1, m2))
                        if data.flags.writeable:
                            data[...] = 1 - data  # caller-owned result: must not reach later samples
        ctx.sample({"kind": "correlated", "p1": p1, "p2": b["corr_p"], "rho": b["corr_rho"], "n": b["corr_n"]})
        return None

    # ---------------------------------------------------------------- sample() under the answer oracle
    for sc in ("pos", "neg"):
        ds = NormalDataset(mu_pos=1.0, mu_neg=-2.0, sigma_pos=0.5, sigma_neg=2.0, p_pos=0.25, n=3, score_class=sc)
        for n, pp, via in ((1, None, "arg"), (2, 0.5, "arg"), (3, None, "field"), (3, 0.75, "arg")):
            case = {"score_class": sc, "n": n, "p_pos": pp}
            leaves, mass = 0, 0.0
            exp_pos = 0.0
            split_mass = {}

            def fn(orc):
                return ds.sample(n if via == "arg" else None, p_pos=pp, rng=orc)

            try:
                for orc, smp in rngtree.explore(fn, use_global=False, twice=True,
                                                observe=lambda s_: (tuple(s_.pos.tolist()), tuple(s_.neg.tolist()))):
                    leaves += 1
                    mass += orc.prob
                    ctx.tick()
                    ctx.nontrivial()
                    c2 = dict(case, answers=orc.choices)
                    if orc.nondeterministic:
                        ctx.fail("sample-deterministic-given-answers", c2, observed="differs", expected="identical")
                    if len(smp.pos) + len(smp.neg) != n:
                        ctx.fail("sample-has-n-scores", c2, observed=len(smp.pos) + len(smp.neg), expected=n)
                    if not (smp.score_class == sc):
                        ctx.fail("sample-keeps-score-direction", c2, observed=str(smp.score_class), expected=sc)
                    req = orc.requests()
                    want_p = pp if pp is not None else 0.25
                    split_mass[len(smp.pos)] = split_mass.get(len(smp.pos), 0.0) + orc.prob
                    # value level: whatever normal variate is requested, the answer menu is {m, m-2s, m+2s}, so a
                    # positive score must be one of 1 + 0.5*{0,-2,2} and a negative one of -2 + 2*{0,-2,2}
                    okp = all(any(abs(v - (1.0 + 0.5 * z)) < 1e-12 for z in (0, -2, 2)) for v in np.asarray(smp.pos, dtype=float))
                    okn = all(any(abs(v - (-2.0 + 2.0 * z)) < 1e-12 for z in (0, -2, 2)) for v in np.asarray(smp.neg, dtype=float))
                    if not (okp and okn):
                        ctx.fail("class-means-and-scales-passed-on", c2, observed=[smp.pos, smp.neg],
                                 expected="pos in {1, 0, 2}, neg in {-2, -6, 2}")
                    exp_pos += orc.prob * len(smp.pos)
            except rngtree.UnownedRNG as e:
                raise HarnessError(str(e))
            ctx.state()
            ctx.add("leaves", leaves)
            # the class split is Binomial(n, p_pos): exact distribution over the whole tree (however it is drawn)
            want_p = pp if pp is not None else 0.25
            for k_ in range(n + 1):
                wantm = math.comb(n, k_) * want_p**k_ * (1 - want_p) ** (n - k_)
                if abs(split_mass.get(k_, 0.0) - wantm) > 1e-9:
                    ctx.fail("class-split-binomial-n-p", dict(case, positives=k_), observed=split_mass.get(k_, 0.0), expected=wantm)
                    break
    # random Bernoulli sampling requests binomial(1, p, size=n)
    for n, p in ((1, 0.3), (3, 0.5), (2, 0.0)):
        ds = BernoulliDataset(p=p)
        leaves = 0
        for orc, data in rngtree.explore(lambda o: ds.sample(n, random=True, rng=o), use_global=False, twice=False):
            leaves += 1
            ctx.tick()
            data = np.asarray(data)
            if data.shape != (n,) or not set(data.tolist()) <= {0, 1}:
                ctx.fail("bernoulli-shape-and-values", {"n": n, "p": p, "random": True}, observed=data, expected="0/1 of length n")
            if any(r[0] != "binomial" or r[1][0] != 1 or r[1][1] != p for r in orc.requests()):
                ctx.fail("bernoulli-random-draws", {"n": n, "p": p}, observed=orc.requests(), expected="binomial(1,p)")
        ctx.state()
    ctx.sample({"kind": "sample", "datasets": "NormalDataset n<=3 (all answers), BernoulliDataset random"})
    return None

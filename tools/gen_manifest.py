#!/venv/bin/python
"""Regenerates /verif/MANIFEST.json from the table below (keeps it valid at all times)."""
import json
import os
import subprocess
import sys

HERE = os.path.dirname(os.path.dirname(os.path.abspath(__file__)))

ENGINES = {
    "order-type-explorer": "E1: exhaustive enumeration of all score order types (tie patterns) up to a size "
    "bound x configurations x easy counts x complete relative threshold/target alphabets, "
    "each executed on the real code and compared with a plain-Python reference model",
    "rng-answer-tree": "E2: stateless depth-first exploration of every answer sequence of the intercepted "
    "NumPy RNG (binomial/choice/poisson/normal) with exact leaf probabilities (mass sums to 1)",
    "op-sequence-graph": "E3: explicit-state BFS over operation sequences on live objects to a fixpoint, "
    "differential oracle against freshly constructed objects",
    "array-enumerator": "E4: small-scope exhaustive enumeration of arrays over a value alphabet x shape menu",
}

TECH = {
    "order-type-explorer": "exhaustive order-type (tie-pattern) enumeration on the real code vs plain-Python reference",
    "rng-answer-tree": "exhaustive RNG answer-tree exploration (stateless DFS, leaf mass = 1) on the real code",
    "op-sequence-graph": "explicit-state BFS over operation sequences to a fixpoint on live objects",
    "array-enumerator": "small-scope exhaustive array enumeration on the real code vs exact reference formulas",
}


def load_checks():
    sys.path.insert(0, HERE)
    import importlib

    out = {}
    for f in sorted(os.listdir(os.path.join(HERE, "mc", "props"))):
        if not (f.startswith("c") and f[1:3].isdigit() and f.endswith(".py")):
            continue
        m = importlib.import_module("mc.props." + f[:-3])
        if getattr(m, "CLAIMED", True) is False:
            continue
        b = {t: m.bounds(t) for t in ("quick", "thorough")}
        text = getattr(m, "LEVEL_TEXT", None) or (
            f"Bounded exhaustive exploration on the implementation itself. {m.RULE}. Bounds - quick: "
            f"{json.dumps(b['quick'])[:400]}; thorough: {json.dumps(b['thorough'])[:400]}. Within these bounds the "
            "statement is a coverage statement (every enumerated state and transition was executed and judged), "
            "not a sample."
        )
        note = getattr(m, "LEVEL_NOTE", None) or "; ".join(m.ASSUMPTIONS)
        out[m.ID] = (m.ENGINE, getattr(m, "TECHNIQUE", TECH[m.ENGINE]), text, note, f"DESIGN.md §4 {m.ID}")
    return out


NOT_YET = "check not built yet (work in progress this round); no claim is made"


def main():
    global CHECKS
    CHECKS = load_checks()
    props = [json.loads(l) for l in open(os.path.join(HERE, "properties.jsonl"))]
    commits = []
    checks = []
    na = []
    for p in props:
        pid = p["id"]
        if pid in CHECKS:
            eng, tech, text, note, ref = CHECKS[pid]
            checks.append(
                {
                    "property_id": pid,
                    "quick_cmd": f"./check {pid} quick",
                    "thorough_cmd": f"./check {pid} thorough",
                    "evidence_file": f"/verif/evidence/{pid}.json",
                    "replay_cmd_template": "./check --replay {path}",
                    "engine": eng,
                    "level_claimed": {"category": "model_checking", "text": text, "design_ref": ref},
                    "level_note": note,
                    "technique": tech,
                }
            )
        else:
            na.append({"property_id": pid, "reason": NA.get(pid, NOT_YET)})
    man = {
        "version": 1,
        "setup_cmd": "/venv/bin/python tools/setup_check.py && /venv/bin/python tools/selftest.py",
        "hooks": {
            "guard": "SCORE_ANALYSIS_VERIF",
            "enable": "none needed: the checks import /repo's working tree directly and intercept the NumPy "
            "RNG from the harness (attributes of numpy.random are looked up at call time); the guard variable "
            "is set by the harness but no source hook reads it",
            "baseline_off_cmd": "cd /repo && /venv/bin/python -m pytest -ra -q -p no:cacheprovider --timeout=900",
            "source_commits": commits,
            "add_only": True,
        },
        "engines": [
            {
                "name": k,
                "path": "/verif/mc",
                "serves_properties": [c["property_id"] for c in checks if c["engine"] == k],
                "kind_free_text": v,
            }
            for k, v in ENGINES.items()
        ],
        "checks": checks,
        "not_applicable": na,
        "notes": "Own explicit-state explorer in Python running the real code (no TLA+/Promela model: see DESIGN.md "
        "§1.3). Fixed defects and known findings: /verif/known_findings.json. Seeded breaking changes: "
        "/verif/seeded/. VERIF_REPO can point the checks at a scratch copy (mutation campaign only).",
    }
    with open(os.path.join(HERE, "MANIFEST.json"), "w") as f:
        json.dump(man, f, indent=1)
        f.write("\n")
    # validate
    try:
        subprocess.check_call(
            [
                "python3-vt",
                "-c",
                "import json,jsonschema;jsonschema.validate(json.load(open('%s/MANIFEST.json')),"
                "json.load(open('/root/.vp/MANIFEST.schema.json')));print('MANIFEST valid: %d checks, %d n/a')"
                % (HERE, len(checks), len(na)),
            ]
        )
    except FileNotFoundError:
        pass


NA = {}

if __name__ == "__main__":
    sys.exit(main())

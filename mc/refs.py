"""
Reference models (DESIGN.md §2.5): plain Python, no NumPy/SciPy code paths.
"""

from __future__ import annotations

import math
from fractions import Fraction
from statistics import NormalDist

ND = NormalDist()


# --------------------------------------------------------------------------- #
# decision rule / confusion matrix
# --------------------------------------------------------------------------- #
def predicted_positive(score, threshold, score_class, equal_class):
    """The documented decision rule (score >=, >, <=, < threshold)."""
    if score_class == "pos" and equal_class == "pos":
        return score >= threshold
    if score_class == "pos" and equal_class == "neg":
        return score > threshold
    if score_class == "neg" and equal_class == "pos":
        return score <= threshold
    return score < threshold


def ref_cm(pos, neg, threshold, score_class, equal_class, easy_pos=0, easy_neg=0):
    """[[TP, FN], [FP, TN]] by counting."""
    tp = sum(1 for s in pos if predicted_positive(s, threshold, score_class, equal_class))
    fp = sum(1 for s in neg if predicted_positive(s, threshold, score_class, equal_class))
    return [[tp + easy_pos, len(pos) - tp], [fp, len(neg) - fp + easy_neg]]


def ref_rates(m):
    """The six rates of a 2x2 matrix as Fractions (None when undefined)."""
    (tp, fn), (fp, tn) = m
    p, n = tp + fn, fp + tn
    tot = p + n

    def fr(a, b):
        return Fraction(a, b) if b else None

    return {
        "tpr": fr(tp, p),
        "fnr": fr(fn, p),
        "tnr": fr(tn, n),
        "fpr": fr(fp, n),
        "topr": fr(tp + fp, tot),
        "tonr": fr(fn + tn, tot),
    }


def same_float(a, b):
    """a (float) equals the correctly rounded value of b (Fraction or None)."""
    if b is None:
        return isinstance(a, float) and math.isnan(a)
    return a == b.numerator / b.denominator


# --------------------------------------------------------------------------- #
# AUC
# --------------------------------------------------------------------------- #
def ref_mann_whitney(pos, neg, score_class, easy_pos=0, easy_neg=0):
    """
    P(random positive ranked on the positive side of a random negative)
    + 1/2 P(tie); easy samples rank beyond every scored sample.
    """
    P, N = len(pos) + easy_pos, len(neg) + easy_neg
    if P == 0 or N == 0:
        return None
    wins = Fraction(0)
    for p in pos:
        for n in neg:
            if p == n:
                wins += Fraction(1, 2)
            elif (p > n) == (score_class == "pos"):
                wins += 1
    # easy positive vs anything, anything vs easy negative: always correct
    wins += easy_pos * N + len(pos) * easy_neg
    return wins / (P * N)


def ref_step_area(pos, neg, score_class, easy_pos, easy_neg, lower, upper):
    """
    Exact area under the empirical step ROC (FPR on x, TPR on y) over [lower, upper];
    only defined when no value is shared between the classes.
    lower/upper are Fractions.
    """
    P, N = len(pos) + easy_pos, len(neg) + easy_neg
    sign = 1 if score_class == "pos" else -1
    # walk from the most positive-looking score to the least
    items = sorted(
        [(sign * s, 1) for s in pos] + [(sign * s, 0) for s in neg], key=lambda t: -t[0]
    )
    # curve as list of horizontal segments: (x0, x1, y)
    x, y = Fraction(0), Fraction(easy_pos, P)
    segs = []
    for _, is_pos in items:
        if is_pos:
            y += Fraction(1, P)
        else:
            segs.append((x, x + Fraction(1, N), y))
            x += Fraction(1, N)
    if easy_neg:
        segs.append((x, Fraction(1), y))  # flat tail: easy negatives never accepted
    area = Fraction(0)
    for x0, x1, yy in segs:
        lo, hi = max(x0, lower), min(x1, upper)
        if hi > lo:
            area += (hi - lo) * yy
    return area


# --------------------------------------------------------------------------- #
# quantiles and bootstrap CI formulas
# --------------------------------------------------------------------------- #
def ref_quantile(sorted_vals, q):
    """Linear interpolation quantile (Hyndman-Fan 7) of finite sorted values."""
    n = len(sorted_vals)
    if n == 0:
        return math.nan
    if math.isnan(q):
        return math.nan
    h = (n - 1) * q
    lo = math.floor(h)
    hi = min(lo + 1, n - 1)
    lo = max(min(lo, n - 1), 0)
    g = h - lo
    return sorted_vals[lo] + g * (sorted_vals[hi] - sorted_vals[lo])


def _ppf(p):
    if p <= 0.0:
        return -math.inf
    if p >= 1.0:
        return math.inf
    return ND.inv_cdf(p)


def _cdf(z):
    if z == -math.inf:
        return 0.0
    if z == math.inf:
        return 1.0
    return ND.cdf(z)


def ref_levels(theta, theta_hat, alpha, method):
    """
    Adjusted quantile levels (lower, upper) of the documented formulas, plus a
    conditioning flag; theta is a list of floats (NaN allowed, ignored).
    """
    fin = [t for t in theta if not math.isnan(t)]
    al, au = alpha / 2.0, 1.0 - alpha / 2.0
    if method == "quantile":
        return al, au, True
    n = len(fin)
    p0 = sum(1 for t in fin if t <= theta_hat) / n if n else math.nan
    if math.isnan(p0):
        return math.nan, math.nan, True
    z0 = _ppf(p0)
    zl, zu = _ppf(al), _ppf(au)
    if method == "bc":
        return _cdf(2 * z0 + zl), _cdf(2 * z0 + zu), True
    # bca
    if math.isinf(z0):
        return _cdf(z0), _cdf(z0), True
    d = [t - theta_hat for t in fin]
    num = sum(x**3 for x in d)
    den = 6 * sum(x**2 for x in d) ** 1.5
    a = num / den if den != 0 else 0.0
    well = True
    out = []
    for z in (zl, zu):
        s = z0 + z
        denom = 1 - a * s
        if abs(denom) < 1e-6:
            well = False
            out.append(math.nan)
        else:
            out.append(_cdf(z0 + s / denom))
    return out[0], out[1], well


def ref_bootstrap_ci(theta, theta_hat, alpha, method):
    fin = sorted(t for t in theta if not math.isnan(t))
    ql, qu, well = ref_levels(theta, theta_hat, alpha, method)
    if not well:
        return None
    return ref_quantile(fin, ql), ref_quantile(fin, qu)


def ref_binomial_ci(count, nobs, alpha):
    if nobs == 0:
        return (math.nan, math.nan)
    p = count / nobs
    z = -ND.inv_cdf(alpha / 2.0)  # upper tail via symmetry: 1 - alpha/2 would lose tiny alphas to rounding
    d = z * math.sqrt(p * (1 - p) / nobs)
    return (p - d, p + d)


# --------------------------------------------------------------------------- #
# piecewise linear evaluation
# --------------------------------------------------------------------------- #
def ref_pl_eval(x, y, s):
    """All values the interpolant of (x,y) can take at s (duplicated x: several)."""
    vals = []
    n = len(x)
    for i in range(n):
        if x[i] == s:
            vals.append(y[i])
    for i in range(n - 1):
        if x[i] < s < x[i + 1]:
            la = (s - x[i]) / (x[i + 1] - x[i])
            vals.append(y[i] + la * (y[i + 1] - y[i]))
    return vals


def ref_cm_sorted(spos, sneg, threshold, score_class, equal_class, easy_pos=0, easy_neg=0):
    """Counting by the decision rule on *sorted* Python lists with the bisect module (no NumPy): O(log n)."""
    import bisect

    def accepted(arr):
        if score_class == "pos":
            below = bisect.bisect_left(arr, threshold) if equal_class == "pos" else bisect.bisect_right(arr, threshold)
            return len(arr) - below  # score >= t  /  score > t
        upto = bisect.bisect_right(arr, threshold) if equal_class == "pos" else bisect.bisect_left(arr, threshold)
        return upto  # score <= t  /  score < t

    if threshold != threshold:  # NaN: no score satisfies any comparison
        tp = fp = 0
    else:
        tp, fp = accepted(spos), accepted(sneg)
    return [[tp + easy_pos, len(spos) - tp], [fp, len(sneg) - fp + easy_neg]]


def ref_mann_whitney_sorted(spos, sneg, score_class, easy_pos=0, easy_neg=0):
    """Same statistic as ref_mann_whitney for sorted lists, O(n log n) with bisect (exact rational)."""
    import bisect

    P, N = len(spos) + easy_pos, len(sneg) + easy_neg
    if P == 0 or N == 0:
        return None
    twice = 0  # 2 * (wins + ties/2), an integer
    for p in spos:
        lo = bisect.bisect_left(sneg, p)
        hi = bisect.bisect_right(sneg, p)
        below, ties, above = lo, hi - lo, len(sneg) - hi
        twice += 2 * (below if score_class == "pos" else above) + ties
    twice += 2 * (easy_pos * N + len(spos) * easy_neg)
    return Fraction(twice, 2 * P * N)

"""Shared exploration for C02 (round trip / coherence) and C03 (extremes)."""

from __future__ import annotations

import math
from fractions import Fraction

import numpy as np

from mc import ordertypes as ot
from mc.harness import guarded

METRICS = ["tpr", "fnr", "tnr", "fpr", "topr", "tonr"]
ALIAS_OF = {
    "tpr": "tar",
    "fnr": "frr",
    "tnr": "trr",
    "fpr": "far",
    "topr": "acceptance_rate",
    "tonr": "rejection_rate",
}
METHODS = ["linear", "lower", "higher"]
# incl. the floats adjacent to the ends from outside: -5e-324 <= 0 and nextafter(1, 2) >= 1
EXTREME_TARGETS = [-0.5, -1e-9, -5e-324, 0.0, 1.0, math.nextafter(1.0, 2.0), 1.0 + 1e-9, 1.5]
# operating points people actually ask for, values that round to them, and their complements
CUSTOMARY_TARGETS = [c_ * f_ for c_ in (1e-4, 1e-3, 0.01, 0.05, 0.1, 0.2) for f_ in (1.0, 1.0 + 1e-4, 1.0 - 3e-3)]
CUSTOMARY_TARGETS += [1.0 - t_ for t_ in CUSTOMARY_TARGETS]


def step(t, k):
    """k-fold nextafter (k may be negative)."""
    d = math.inf if k > 0 else -math.inf
    for _ in range(abs(k)):
        t = math.nextafter(t, d)
    return t


def relevant(metric, pos, neg):
    if metric in ("tpr", "fnr"):
        return sorted(pos)
    if metric in ("tnr", "fpr"):
        return sorted(neg)
    return sorted(list(pos) + list(neg))


def population(metric, npos, nneg, ep, en):
    if metric in ("tpr", "fnr"):
        return npos + ep
    if metric in ("tnr", "fpr"):
        return nneg + en
    return npos + nneg + ep + en


def snippet(pos, neg, cfg, ep, en, metric, r, method):
    return (
        "from score_analysis import Scores\n"
        f"s = Scores({pos!r}, {neg!r}, nb_easy_pos={ep}, nb_easy_neg={en}, "
        f"score_class={cfg[0]!r}, equal_class={cfg[1]!r})\n"
        f"t = s.threshold_at_{metric}({r!r}, method={method!r})\n"
        f"print(t, s.{metric}(t), s.{metric}(float('-inf')), s.{metric}(float('inf')))\n"
    )


def explore(item, ctx, seed, easy_menu, clauses, quarter=True):
    """
    clauses: subset of {"roundtrip", "coherence", "monotone", "vector", "extremes"}.
    """
    from score_analysis import Scores

    blocks = [tuple(x) for x in item.get("blocks", [])]
    if "ladder" in item:
        # scale ladder: one much larger deterministic dataset (see ordertypes.ladder_dataset)
        pos, neg = ot.ladder_dataset(item["ladder"], item.get("tie_free", True), seed)
        pos, neg = sorted(pos), sorted(neg)
        pin, nin = np.array(pos[::-1]), np.array(neg[::-1])
        item = dict(item, blocks=f"ladder n={item['ladder']} tie_free={item.get('tie_free', True)}", grid="ladder")
    elif item["grid"] in ot.MIXED_KINDS:
        # the two classes in different dtypes (see ordertypes.concretise_mixed)
        pos, neg, vals, pin, nin = ot.concretise_mixed(blocks, item["grid"])
        pos, neg = [float(x) for x in pos], [float(x) for x in neg]
    elif item["grid"] == "unit":
        m_ = len(blocks)
        uvals = [0.0] if m_ == 1 else [i / (m_ - 1) for i in range(m_)]
        pos, neg = [], []
        for v, (a, c) in zip(uvals, blocks):
            pos += [v] * a
            neg += [v] * c
        pin, nin = pos[::-1], neg[::-1]
    elif item["grid"] == "uint":
        pos, neg, vals = ot.concretise(blocks, "uint", seed)
        pin, nin = np.array(pos[::-1], dtype=np.uint8), np.array(neg[::-1], dtype=np.uint8)  # unsorted, unsigned
        pos, neg = [float(x) for x in pos], [float(x) for x in neg]
    elif item["grid"] == "float32":
        pos, neg, vals = ot.concretise(blocks, "irregular", seed)
        pos, neg = [float(x) for x in pos], [float(x) for x in neg]
        pin, nin = np.array(pos[::-1], dtype=np.float32), np.array(neg[::-1], dtype=np.float32)
    else:
        pos, neg, vals = ot.concretise(blocks, item["grid"], seed)
        if item["grid"] != "int":
            pos, neg = [float(x) for x in pos], [float(x) for x in neg]
        # unsorted input on purpose
        pin, nin = pos[::-1], neg[::-1]
    orig_pos, orig_neg = pos, neg
    # easy counts handed over as NumPy integer scalars of a small type (a count read out of a uint8 / int8 array)
    typed_easy = [(255, 127)] if item.get("grid") == "irregular" and len(orig_pos) + len(orig_neg) <= 4 else []
    for cfg in ot.CFGS:
        sc, ec = cfg
        for ep, en in list(easy_menu) + typed_easy:
            pos, neg = orig_pos, orig_neg  # (the loop over derived objects below rebinds these names)
            base_case = {"blocks": item["blocks"], "grid": item["grid"], "pos": pos, "neg": neg,
                         "cfg": cfg, "easy": [ep, en]}
            ep_arg, en_arg = ep, en
            if (ep, en) in typed_easy and (ep, en) not in easy_menu:
                ep_arg, en_arg = np.uint8(ep), np.int8(en)
                base_case["easy_passed_as"] = ["np.uint8", "np.int8"]
            ok, s = guarded(ctx, "construct", base_case, Scores, pin, nin, nb_easy_pos=ep_arg,
                            nb_easy_neg=en_arg, score_class=sc, equal_class=ec)
            if not ok:
                continue
            src_pos, src_neg, src_easy = pos, neg, (ep, en)
            objs = [("constructed", s, pos, neg, ep, en)]
            if item.get("mutated", False) and (ep, en) in ((0, 0), (1, 2), (2, 0)) and pos and neg:
                # an object that answered queries for other scores and was then given these scores through its
                # public attributes is a Scores object like any other
                mid_ = (min(pos + neg) + max(pos + neg)) / 2.0  # other scores squeezed into the middle of the new range
                ok2, s2 = guarded(ctx, "construct", base_case, Scores, [v * 0.01 + mid_ for v in pos], [v * 0.01 + mid_ for v in neg],
                                  nb_easy_pos=ep + 2, nb_easy_neg=en + 1, score_class=sc, equal_class=ec)
                if ok2:
                    for m_ in METRICS:
                        guarded(ctx, "warm-up", base_case, lambda: (getattr(s2, "threshold_at_" + m_)(np.array([0.0, 0.4, 1.0])),
                                                                     getattr(s2, m_)(np.array([0.0, 1.0]))))
                    s2.pos, s2.neg = np.sort(np.asarray(pin)), np.sort(np.asarray(nin))
                    s2.nb_easy_pos, s2.nb_easy_neg = ep, en
                    objs.append(("queried with other scores, then attributes assigned", s2, pos, neg, ep, en))
                # the same, but the object's own arrays are overwritten in place (same length): queried, scores written
                # into .pos / .neg element by element, queried again
                ok4, s4 = guarded(ctx, "construct", base_case, Scores, [v * 0.01 + mid_ for v in pos], [v * 0.01 + mid_ for v in neg],
                                  nb_easy_pos=ep, nb_easy_neg=en, score_class=sc, equal_class=ec)
                if ok4:
                    for m_ in METRICS:
                        guarded(ctx, "warm-up", base_case, lambda: (getattr(s4, "threshold_at_" + m_)(np.array([0.0, 0.4, 1.0])),
                                                                     getattr(s4, m_)(np.array([0.0, 1.0]))))
                    try:
                        s4.pos[...] = np.sort(np.asarray(pin, dtype=float))
                        s4.neg[...] = np.sort(np.asarray(nin, dtype=float))
                        objs.append(("queried with other scores, then its arrays overwritten in place", s4, pos, neg, ep, en))
                    except (ValueError, TypeError):  # read-only storage: nothing to overwrite
                        pass
            if item.get("grid") == "int" and (ep, en) == easy_menu[0] and pos and neg:
                # integer arrays assigned to a live object (the constructor is not the only way scores get in)
                ok5, s5 = guarded(ctx, "construct", base_case, Scores, [v + 0.5 for v in pos], [v - 0.25 for v in neg],
                                  nb_easy_pos=ep, nb_easy_neg=en, score_class=sc, equal_class=ec)
                if ok5:
                    guarded(ctx, "warm-up", base_case, lambda: (s5.threshold_at_fnr(0.3), s5.threshold_at_topr(0.5)))
                    s5.pos, s5.neg = np.array(sorted(int(v) for v in pos), dtype=np.int64), np.array(sorted(int(v) for v in neg), dtype=np.int16)
                    objs.append(("integer arrays (int64 / int16) assigned to a live object", s5, pos, neg, ep, en))
            if item.get("grid") == "unit" and (ep, en) in (easy_menu[0], easy_menu[-1]):
                # the FraudScores view of the same data (scores in [0,1], 0.0 and 1.0 included) is a Scores object
                from score_analysis.applications.doc_fraud import FraudScores

                if ec == "pos":
                    ok6, f6 = guarded(ctx, "construct-fraudscores", base_case, FraudScores, genuines=np.array(pin), frauds=np.array(nin),
                                      nb_easy_genuines=ep, nb_easy_frauds=en, score_class="genuine" if sc == "pos" else "fraud")
                    if ok6:
                        objs.append(("FraudScores view", f6, pos, neg, ep, en))
            if item.get("mutated", False) and (ep, en) in ((0, 0), (1, 2)) and pos and neg:
                from mc.derived import derived_objects

                for how_, d_ in derived_objects(s, seed, with_swap=False):
                    objs.append((how_, d_, sorted(np.asarray(d_.pos, dtype=float).tolist()),
                                 sorted(np.asarray(d_.neg, dtype=float).tolist()), int(d_.nb_easy_pos), int(d_.nb_easy_neg)))
            if item["grid"] in ("uint", "mixed_narrow") and (ep, en) == easy_menu[0]:
                # a subclass object holding the same scores, built from the unsorted arrays of the same dtypes
                from mc.derived import group_twin

                ok3, g3 = guarded(ctx, "construct-group-twin", base_case, group_twin, s)
                if ok3:
                    objs.append(("GroupScores twin (unsorted input, same dtype)", g3, pos, neg, 0, 0))
            for how, s, pos, neg, ep, en in objs:
                base_case = dict(base_case, object=how, pos=pos, neg=neg, easy=[ep, en])
                ctx.state()
                for metric in METRICS:
                    rel = relevant(metric, pos, neg)
                    if not rel:
                        continue
                    N = population(metric, len(pos), len(neg), ep, en)
                    M = getattr(s, metric)
                    setter = getattr(s, "threshold_at_" + metric)
                    lo_, hi_ = float(M(-math.inf)), float(M(math.inf))
                    lo, hi = min(lo_, hi_), max(lo_, hi_)
                    increasing = lo_ < hi_
                    tie_free = len(set(rel)) == len(rel)
                    scale = max(abs(rel[0]), abs(rel[-1]))
                    tol_t = 4 * (math.nextafter(scale, math.inf) - scale) if scale > 0 else 2e-323
                    sentinels = {math.nextafter(rel[0], -math.inf), math.nextafter(rel[-1], math.inf)}
                    allowed = set(map(float, rel)) | sentinels
                    if "extremes" in clauses and not (clauses - {"extremes"}):
                        targets = list(EXTREME_TARGETS)
                    else:
                        targets = sorted(ot.target_alphabet(N, seed, quarter))
                        if len(targets) > 400:  # scale ladder: thin the alphabet, keep both ends and the out-of-range values
                            step_ = len(targets) // 300
                            targets = sorted(set(targets[:12] + targets[::step_] + targets[-12:]))
                        if "ladder" in str(item.get("grid")):
                            targets = sorted(set(targets + CUSTOMARY_TARGETS))
                    tarr = np.array(targets, dtype=float)
                    case_m = dict(base_case, metric=metric)
                    res = {}
                    for method in METHODS:
                        ok, tv = guarded(ctx, "setter-array", dict(case_m, method=method),
                                         lambda: setter(tarr, method=method))
                        if not ok:
                            res = None
                            break
                        tv = np.asarray(tv, dtype=float)
                        if tv.shape != tarr.shape:
                            ctx.fail("setter-shape", dict(case_m, method=method), observed=list(tv.shape),
                                     expected=list(tarr.shape))
                            res = None
                            break
                        res[method] = tv
                    if res is None:
                        continue
                    if item.get("scalars", False) and how == "constructed":
                        # the method name held as an equal string built at run time / as a NumPy string
                        for method in METHODS:
                            for kname, mval in ot.string_kinds(method)[1:]:
                                ok, tv2 = guarded(ctx, "setter-array", dict(case_m, method=method, method_passed_as=kname),
                                                  lambda: setter(tarr, method=mval))
                                ctx.tick()
                                if ok and not np.array_equal(np.asarray(tv2, dtype=float), res[method], equal_nan=True):
                                    ctx.fail("method-name-compared-by-value", dict(case_m, method=method, method_passed_as=kname),
                                             observed=tv2, expected=res[method])
                    if not np.array_equal(tarr, np.array(targets, dtype=float)):
                        ctx.fail("target-array-unchanged", case_m, observed=tarr, expected=targets)
                        tarr = np.array(targets, dtype=float)
                    # metric at, just below and just above every returned threshold
                    mv = {}
                    for method in METHODS:
                        t = res[method]
                        m_t = np.asarray(M(t), dtype=float)
                        if "roundtrip" in clauses and method == "linear":
                            tb = np.array([step(x, -4) for x in t.tolist()])
                            ta = np.array([step(x, 4) for x in t.tolist()])
                            mv[method] = (m_t, np.asarray(M(tb), dtype=float), np.asarray(M(ta), dtype=float))
                        else:
                            mv[method] = (m_t, m_t, m_t)
                    for j, r in enumerate(targets):
                        rh = min(max(r, lo), hi)
                        if clauses == {"extremes"}:
                            nontriv = (not tie_free) or len(rel) == 1 or ep + en > 0
                        else:
                            nontriv = (lo < r < hi and abs(r * N - round(r * N)) > 1e-9) or not tie_free
                        for method in METHODS:
                            t = float(res[method][j])
                            m_at, m_b, m_a = (float(mv[method][0][j]), float(mv[method][1][j]),
                                              float(mv[method][2][j]))
                            case = dict(case_m, r=r, method=method)
                            ctx.tick()
                            if nontriv:
                                ctx.nontrivial()
                            ctx.outcome((metric, cfg, method, round(m_at, 9), r <= 0, r >= 1))
                            if "extremes" in clauses and (r <= 0.0 or r >= 1.0):
                                want = lo if r <= 0.0 else hi
                                if m_at != want:
                                    ctx.fail("extreme-exact", case, observed={"t": t, "metric_at_t": m_at},
                                             expected={"metric": want},
                                             snippet=snippet(pos, neg, cfg, ep, en, metric, r, method))
                            if "roundtrip" in clauses and method == "linear":
                                if tie_free and not abs(m_at - rh) <= 1.0 / N + 1e-9:
                                    ctx.fail("roundtrip-within-one-sample", case,
                                             observed={"t": t, "metric_at_t": m_at},
                                             expected={"r_clipped": rh, "tol": 1.0 / N},
                                             snippet=snippet(pos, neg, cfg, ep, en, metric, r, method))
                                mn, mx = min(m_at, m_b, m_a), max(m_at, m_b, m_a)
                                if not (mn - 1.0 / N - 1e-9 <= rh <= mx + 1.0 / N + 1e-9):
                                    ctx.fail("bracket-within-one-sample", case,
                                             observed={"t": t, "below": m_b, "at": m_at, "above": m_a},
                                             expected={"r_clipped": rh, "tol": 1.0 / N},
                                             snippet=snippet(pos, neg, cfg, ep, en, metric, r, method))
                        if "coherence" in clauses:
                            tl, th, tlin = (float(res["lower"][j]), float(res["higher"][j]),
                                            float(res["linear"][j]))
                            case = dict(case_m, r=r)
                            for nm, tt in (("lower", tl), ("higher", th)):
                                if tt not in allowed:
                                    ctx.fail("lower-higher-is-a-score", dict(case, method=nm), observed=tt,
                                             expected=sorted(allowed),
                                             snippet=snippet(pos, neg, cfg, ep, en, metric, r, nm))
                            ml, mh = float(mv["lower"][0][j]), float(mv["higher"][0][j])
                            if not ml <= mh:
                                ctx.fail("metric-lower-le-higher", case,
                                         observed={"t_lower": tl, "t_higher": th, "m_lower": ml, "m_higher": mh},
                                         expected="metric(lower) <= metric(higher)",
                                         snippet=snippet(pos, neg, cfg, ep, en, metric, r, "lower"))
                            a, b = min(tl, th), max(tl, th)
                            if not (a - tol_t <= tlin <= b + tol_t):
                                ctx.fail("linear-between", case, observed={"linear": tlin, "lower": tl, "higher": th},
                                         expected="lower <= linear <= higher (4 ulp)",
                                         snippet=snippet(pos, neg, cfg, ep, en, metric, r, "linear"))
                            # convex combination weighted by frac(r*N)
                            # frac(r*N) from exact rational arithmetic on the float r; the implementation's own
                            # floating-point index carries a rounding error of a few ulps of N, nothing more
                            xq = Fraction(r) * N
                            f = float(xq - math.floor(xq))
                            win = 64 * (math.nextafter(float(max(N, 1)), math.inf) - float(max(N, 1)))
                            cands = []
                            if f < win or f > 1 - win:
                                cands = [tl, th]  # on the grid (to rounding): either neighbour pair may have been chosen
                            else:
                                cands = [(1 - f) * tl + f * th]
                            tolc = tol_t + win * abs(th - tl)
                            if not any(abs(tlin - c) <= tolc for c in cands):
                                ctx.fail("linear-is-convex-combination", case,
                                         observed={"linear": tlin, "lower": tl, "higher": th, "frac": f},
                                         expected=cands,
                                         snippet=snippet(pos, neg, cfg, ep, en, metric, r, "linear"))
                    if "monotone" in clauses:
                        for method in METHODS:
                            tv = res[method].tolist()
                            for j in range(len(tv) - 1):
                                d = tv[j + 1] - tv[j]
                                bad = d < -tol_t if increasing else d > tol_t
                                if bad:
                                    ctx.fail("threshold-monotone-in-target", dict(case_m, method=method,
                                                                                  r0=targets[j], r1=targets[j + 1]),
                                             observed=[tv[j], tv[j + 1]],
                                             expected="non-decreasing" if increasing else "non-increasing")
                                    break
                    if "vector" in clauses and item.get("scalars", True):
                        alias = getattr(s, "threshold_at_" + ALIAS_OF[metric])
                        for method in METHODS:
                            for j, r in enumerate(targets):
                                ok, ts = guarded(ctx, "setter-scalar", dict(case_m, method=method, r=r),
                                                 lambda: setter(r, method=method))
                                ctx.tick()
                                if ok:
                                    if isinstance(ts, np.ndarray) or not isinstance(ts, float):
                                        ctx.fail("scalar-in-scalar-out", dict(case_m, method=method, r=r),
                                                 observed=type(ts).__name__, expected="float")
                                    if float(ts) != float(res[method][j]):
                                        ctx.fail("array-equals-scalar", dict(case_m, method=method, r=r),
                                                 observed={"array": float(res[method][j]), "scalar": float(ts)},
                                                 expected="identical")
                            ok, ta_ = guarded(ctx, "alias", dict(case_m, method=method),
                                              lambda: alias(tarr, method=method))
                            ctx.tick()
                            if ok and not np.array_equal(np.asarray(ta_), res[method]):
                                ctx.fail("alias-identical", dict(case_m, method=method), observed=ta_,
                                         expected=res[method])
    ctx.sample({"blocks": item["blocks"], "grid": item["grid"], "pos": pos if len(pos) < 12 else pos[:6] + ["..."],
                "neg": neg if len(neg) < 12 else neg[:6] + ["..."],
                "metrics": METRICS, "methods": METHODS, "easy_menu": easy_menu})

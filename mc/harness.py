"""
Shared harness of the model-checking framework (DESIGN.md §2.0, §2.6, §8).

* binds the interpreter to the working tree of VERIF_REPO (default /repo),
* fans the work items of a property out over a process pool,
* collects counters / violations / samples, matches violations against
  /verif/known_findings.json, writes replay files and the evidence file,
* implements the exit protocol (0 / 1 + VIOLATION lines / 2 harness error).

A property module (mc/props/cXX.py) provides

    ID, TITLE, ENGINE, RULE, ASSUMPTIONS
    bounds(tier) -> dict                      (named bounds, reported as is)
    work(tier, seed) -> list of JSON-able work items, simplest first
    run(item, ctx, tier, seed)                (explores one item on the real code)
    finish(results, ctx, tier, seed)          (optional: whole-space verdicts)
    MATCHERS = {name: fn(violation_record) -> bool}   (optional)
"""

from __future__ import annotations

import atexit
import hashlib
import importlib
import json
import math
import multiprocessing as mp
import os
import shutil
import sys
import time
import traceback

VERIF = os.path.dirname(os.path.dirname(os.path.abspath(__file__)))
REPO = os.path.abspath(os.environ.get("VERIF_REPO", "/repo"))
GUARD = "SCORE_ANALYSIS_VERIF"
MAX_KEPT_PER_CLAUSE = 5
NCPU = int(os.environ.get("VERIF_JOBS", "0")) or min(16, os.cpu_count() or 1)


class HarnessError(Exception):
    pass


# --------------------------------------------------------------------------- #
# binding to the repository working tree
# --------------------------------------------------------------------------- #
_bound = False


def bind_repo():
    """Make `import score_analysis` resolve to VERIF_REPO's working tree."""
    global _bound
    if _bound:
        return
    os.environ[GUARD] = "1"
    run_dir = os.path.join(VERIF, ".run", str(os.getpid()))
    os.makedirs(run_dir, exist_ok=True)
    atexit.register(shutil.rmtree, run_dir, True)
    sys.dont_write_bytecode = True
    sys.pycache_prefix = os.path.join(run_dir, "pyc")
    for name in list(sys.modules):
        if name == "score_analysis" or name.startswith("score_analysis."):
            raise HarnessError("score_analysis imported before bind_repo()")
    sys.path.insert(0, REPO)
    import warnings

    warnings.simplefilter("ignore")
    import score_analysis  # noqa

    path = os.path.abspath(score_analysis.__file__)
    if not path.startswith(REPO + os.sep):
        raise HarnessError(f"score_analysis imported from {path}, not from {REPO}")
    _bound = True


# --------------------------------------------------------------------------- #
# JSON helpers
# --------------------------------------------------------------------------- #
def jsonable(x, depth=0):
    """Lossy but faithful-enough conversion of observations for replay files."""
    import numpy as np

    if depth > 8:
        return repr(x)
    if x is None or isinstance(x, (bool, str)):
        return x
    if isinstance(x, (int,)):
        return x
    if isinstance(x, float):
        if math.isnan(x):
            return "nan"
        if math.isinf(x):
            return "inf" if x > 0 else "-inf"
        return x
    if isinstance(x, np.generic):
        return jsonable(x.item(), depth + 1)
    if isinstance(x, np.ndarray):
        return jsonable(x.tolist(), depth + 1)
    if isinstance(x, dict):
        return {str(k): jsonable(v, depth + 1) for k, v in x.items()}
    if isinstance(x, (list, tuple, set, frozenset)):
        return [jsonable(v, depth + 1) for v in x]
    try:
        from fractions import Fraction

        if isinstance(x, Fraction):
            return f"{x.numerator}/{x.denominator}"
    except Exception:  # pragma: no cover
        pass
    return repr(x)


def fl(x):
    """Inverse of jsonable for floats stored in work items."""
    if isinstance(x, str):
        return {"nan": math.nan, "inf": math.inf, "-inf": -math.inf}[x]
    return x


# --------------------------------------------------------------------------- #
# per-worker context
# --------------------------------------------------------------------------- #
class Ctx:
    def __init__(self, prop_id):
        self.prop = prop_id
        self.n = {}  # named counters
        self.viol = {}  # clause -> list of records (capped)
        self.viol_count = {}  # clause -> total
        self.known = {}  # finding id -> count
        self.known_first = {}
        self.outcomes = set()
        self.samples = []
        self.extra = {}
        self.item_index = 0
        self.matchers = []  # [(finding id, predicate on a violation record)]

    def load_matchers(self, mod):
        fns = getattr(mod, "MATCHERS", {})
        self.matchers = [
            (k["id"], fns[k["matcher"]])
            for k in load_known()
            if k.get("property") == self.prop and k.get("status") == "known" and k.get("matcher") in fns
        ]

    # counters -------------------------------------------------------------
    def add(self, name, k=1):
        self.n[name] = self.n.get(name, 0) + k

    def state(self, k=1):
        self.add("states", k)

    def tick(self, k=1):
        """k implementation executions compared with the reference."""
        self.add("transitions", k)

    def nontrivial(self, k=1):
        self.add("distinct_nontrivial", k)

    def outcome(self, key):
        if len(self.outcomes) < 200000:
            self.outcomes.add(hash(key) & 0xFFFFFFFFFFFF)

    def sample(self, case):
        if len(self.samples) < 2:
            self.samples.append(jsonable(case))

    # violations -----------------------------------------------------------
    def fail(self, clause, case, observed=None, expected=None, snippet=None, **kw):
        kept = self.viol.setdefault(clause, [])
        if len(kept) >= MAX_KEPT_PER_CLAUSE and not self.matchers:
            self.viol_count[clause] = self.viol_count.get(clause, 0) + 1
            return
        rec = {
            "property": self.prop,
            "clause": clause,
            "item_index": self.item_index,
            "case": jsonable(case),
            "observed": jsonable(observed),
            "expected": jsonable(expected),
            "snippet": snippet,
        }
        for k, v in kw.items():
            rec[k] = jsonable(v)
        # a listed known finding never occupies one of the kept slots, so that a different
        # violation of the same clause is still reported
        for fid, fn in self.matchers:
            if fn(rec):
                self.known_finding(fid, rec["case"])
                return
        self.viol_count[clause] = self.viol_count.get(clause, 0) + 1
        if len(kept) < MAX_KEPT_PER_CLAUSE:
            kept.append(rec)

    def known_finding(self, fid, what):
        self.known[fid] = self.known.get(fid, 0) + 1
        self.known_first.setdefault(fid, what)

    def dump(self):
        return {
            "n": self.n,
            "viol": self.viol,
            "viol_count": self.viol_count,
            "known": self.known,
            "known_first": self.known_first,
            "outcomes": list(self.outcomes),
            "samples": self.samples,
            "extra": self.extra,
        }


def guarded(ctx, clause, case, fn, *a, **kw):
    """Run fn; an exception the property does not document is a violation."""
    try:
        return True, fn(*a, **kw)
    except Exception as e:  # noqa
        ctx.fail(
            "unexpected-exception:" + clause,
            case,
            observed="".join(traceback.format_exception_only(type(e), e)).strip(),
            expected="no exception",
            traceback=traceback.format_exc()[-1500:],
        )
        return False, None


# --------------------------------------------------------------------------- #
# pool plumbing
# --------------------------------------------------------------------------- #
_W = {}


def _worker_init(modname, tier, seed):
    bind_repo()
    import warnings

    warnings.simplefilter("ignore")
    import numpy as np

    np.seterr(all="ignore")
    _W["mod"] = importlib.import_module(modname)
    _W["tier"] = tier
    _W["seed"] = seed


def _worker_run(chunk):
    mod, tier, seed = _W["mod"], _W["tier"], _W["seed"]
    ctx = Ctx(mod.ID)
    ctx.load_matchers(mod)
    results = []
    for idx, item in chunk:
        ctx.item_index = idx
        try:
            r = mod.run(item, ctx, tier, seed)
        except HarnessError:
            raise
        except Exception as e:  # a crash of the check itself on this item
            ctx.fail(
                "unexpected-exception:run",
                item,
                observed=repr(e),
                expected="no exception",
                traceback=traceback.format_exc()[-2500:],
            )
            r = None
        if r is not None:
            results.append((idx, r))
    d = ctx.dump()
    d["results"] = results
    return d


def _chunks(items, nchunks):
    """Round-robin-free contiguous chunks, small enough for good balance."""
    n = len(items)
    if n == 0:
        return []
    size = max(1, math.ceil(n / nchunks))
    return [
        [(i, items[i]) for i in range(s, min(n, s + size))] for s in range(0, n, size)
    ]


def merge(total: Ctx, d):
    for k, v in d["n"].items():
        total.n[k] = total.n.get(k, 0) + v
    for c, k in d["viol_count"].items():
        total.viol_count[c] = total.viol_count.get(c, 0) + k
    for c, recs in d["viol"].items():
        total.viol.setdefault(c, []).extend(recs)
    for f, k in d["known"].items():
        total.known[f] = total.known.get(f, 0) + k
    for f, w in d["known_first"].items():
        total.known_first.setdefault(f, w)
    total.outcomes.update(d["outcomes"])
    for s in d["samples"]:
        if len(total.samples) < 64:
            total.samples.append(s)
    for k, v in d["extra"].items():
        if isinstance(v, (int, float)):
            total.extra[k] = total.extra.get(k, 0) + v
        elif isinstance(v, list):
            total.extra.setdefault(k, []).extend(v)
        else:
            total.extra[k] = v


# --------------------------------------------------------------------------- #
# known findings
# --------------------------------------------------------------------------- #
def load_known():
    path = os.path.join(VERIF, "known_findings.json")
    if not os.path.exists(path):
        return []
    with open(path) as f:
        return json.load(f)


# --------------------------------------------------------------------------- #
# main entry points
# --------------------------------------------------------------------------- #
def load_prop(pid):
    return importlib.import_module(f"mc.props.{pid.lower()}")


def run_property(pid, tier, seed, jobs=None, write=True):
    t0 = time.time()
    bind_repo()
    import warnings

    warnings.simplefilter("ignore")
    mod = load_prop(pid)
    items = mod.work(tier, seed)
    total = Ctx(pid)
    total.load_matchers(mod)
    results = []
    jobs = jobs or NCPU
    chunks = _chunks(items, jobs * 8)
    if jobs == 1 or len(chunks) <= 1:
        _worker_init(mod.__name__, tier, seed)
        for ch in chunks:
            d = _worker_run(ch)
            results.extend(d.pop("results"))
            merge(total, d)
    else:
        mpctx = mp.get_context("fork")
        with mpctx.Pool(jobs, _worker_init, (mod.__name__, tier, seed)) as pool:
            for d in pool.imap_unordered(_worker_run, chunks):
                results.extend(d.pop("results"))
                merge(total, d)
    results.sort(key=lambda t: t[0])
    if hasattr(mod, "finish"):
        total.item_index = len(items)
        try:
            mod.finish([r for _, r in results], total, tier, seed)
        except HarnessError:
            raise
        except Exception as e:
            total.fail(
                "unexpected-exception:finish",
                {},
                observed=repr(e),
                traceback=traceback.format_exc()[-2500:],
            )

    # --- known findings / violations ------------------------------------
    known = [k for k in load_known() if k.get("property") == pid]
    reported, kf_lines = [], {}
    for clause in sorted(total.viol):
        recs = sorted(total.viol[clause], key=lambda r: r["item_index"])
        reported.extend(recs[:MAX_KEPT_PER_CLAUSE])
    # findings recognised inside run() (ctx.known_finding) must be listed too
    listed = {k["id"]: k for k in known if k.get("status") == "known"}
    for fid in list(total.known):
        if fid in listed:
            kf_lines.setdefault(fid, listed[fid])
        else:
            raise HarnessError(f"check recognised unlisted finding {fid}")

    out_lines = []
    for fid, k in sorted(kf_lines.items()):
        out_lines.append(
            f"KNOWN-FINDING: property={pid} {fid} {k.get('where', '')}: "
            f"{k.get('what', '')} (seen {total.known.get(fid, 0)}x)"
        )
    replay_dir = os.path.join(VERIF, "replays", pid)
    if os.environ.get("VERIF_NOEVIDENCE"):  # mutation campaign: keep /verif clean
        write = False
        replay_dir = os.path.join(VERIF, ".run", "mut_replays", pid)
    for rec in reported:
        os.makedirs(replay_dir, exist_ok=True)
        rec["tier"], rec["seed"] = tier, seed
        blob = json.dumps(rec, sort_keys=True, indent=1)
        sha = hashlib.sha1(blob.encode()).hexdigest()[:16]
        path = os.path.join(replay_dir, sha + ".json")
        with open(path, "w") as f:
            f.write(blob)
        out_lines.append(f"VIOLATION property={pid} replay={path}")
        out_lines.append(
            f"  clause={rec['clause']} case={json.dumps(rec['case'])[:300]} "
            f"observed={json.dumps(rec['observed'])[:200]} "
            f"expected={json.dumps(rec['expected'])[:200]}"
        )

    wall = time.time() - t0
    n = total.n
    nviol_unlisted = len(reported)
    states = n.get("states", 0)
    transitions = n.get("transitions", 0)
    samples = total.samples
    if len(samples) > 3:
        samples = [samples[0], samples[len(samples) // 2], samples[-1]]
    coverage = {
        "states": states,
        "transitions": transitions,
        "traces_validated_against_impl": transitions,
        "evaluations": transitions,
        "distinct_nontrivial": n.get("distinct_nontrivial", 0),
        "rule": mod.RULE,
        "samples": samples,
        "exhaustive": bool(getattr(mod, "exhaustive", lambda t: True)(tier))
        and not n.get("caps_hit", 0),
        "bounds": mod.bounds(tier),
        "work_items": len(items),
        "distinct_outcomes": len(total.outcomes),
        "counters": {k: v for k, v in sorted(n.items())},
        "violations_by_clause": dict(sorted(total.viol_count.items())),
        "known_findings_seen": dict(sorted(total.known.items())),
        "engine": mod.ENGINE,
        "repo": REPO,
    }
    for k, v in total.extra.items():
        if k.startswith("cov_"):
            coverage[k[4:]] = v
    evidence = {
        "property_id": pid,
        "tier": tier,
        "seed": seed,
        "level": "model_checking",
        "coverage": coverage,
        "assumptions": list(mod.ASSUMPTIONS),
        "wall_s": round(wall, 2),
        "violations": nviol_unlisted,
    }
    if write:
        os.makedirs(os.path.join(VERIF, "evidence"), exist_ok=True)
        with open(os.path.join(VERIF, "evidence", pid + ".json"), "w") as f:
            json.dump(evidence, f, indent=1, sort_keys=True)
            f.write("\n")
    for line in out_lines:
        print(line)
    print(
        f"[{pid} {tier} seed={seed}] states={states} transitions={transitions} "
        f"nontrivial={coverage['distinct_nontrivial']} outcomes={len(total.outcomes)} "
        f"violations={sum(total.viol_count.values())} unlisted_kept={nviol_unlisted} "
        f"known={dict(total.known)} wall={wall:.1f}s"
    )
    if states < 1 or transitions < 1:
        raise HarnessError("vacuous exploration: no states/transitions")
    return 1 if nviol_unlisted else 0


def replay(path):
    bind_repo()
    import warnings

    warnings.simplefilter("ignore")
    with open(path) as f:
        rec = json.load(f)
    pid = rec["property"]
    mod = load_prop(pid)
    tier, seed = rec.get("tier", "quick"), rec.get("seed", 0)
    _worker_init(mod.__name__, tier, seed)
    ctx = Ctx(pid)
    ctx.load_matchers(mod)
    items = mod.work(tier, seed)
    idx = rec["item_index"]
    if idx >= len(items):
        print(f"replay: item {idx} belongs to finish(); re-running whole property")
        return run_property(pid, tier, seed, write=False)
    ctx.item_index = idx
    mod.run(items[idx], ctx, tier, seed)
    same = [
        r
        for recs in ctx.viol.values()
        for r in recs
        if r["clause"] == rec["clause"]
    ]
    if rec.get("snippet"):
        print("--- stand-alone reproduction ---")
        print(rec["snippet"])
    if same:
        print(f"VIOLATION property={pid} replay={path}")
        print(f"  reproduced: clause={rec['clause']} observed={same[0]['observed']}")
        return 1
    print(f"replay: clause {rec['clause']} no longer fails on item {idx}")
    return 0

#!/venv/bin/python
"""MANIFEST.setup_cmd: offline sanity check; nothing is built (pure Python framework)."""
import os
import sys

HERE = os.path.dirname(os.path.dirname(os.path.abspath(__file__)))
import numpy, scipy, pandas  # noqa: E401,F401

for d in ("evidence", "replays", ".run"):
    os.makedirs(os.path.join(HERE, d), exist_ok=True)
assert os.access(os.path.join(HERE, "check"), os.X_OK), "check must be executable"
sys.path.insert(0, HERE)
from mc import harness  # noqa: E402

harness.bind_repo()
print("setup ok: numpy", numpy.__version__, "scipy", scipy.__version__, "pandas", pandas.__version__,
      "repo", harness.REPO)

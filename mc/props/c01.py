"""C01 - confusion matrix at a threshold = counting by the documented decision rule."""

from __future__ import annotations

import itertools
import math

import numpy as np

from mc import ordertypes as ot
from mc import refs
from mc.harness import guarded

ID = "C01"
TITLE = "Confusion matrix at a threshold equals counting by the documented decision rule"
ENGINE = "order-type-explorer"
RULE = (
    "state = (order type, concretisation, input form, cfg, easy counts); transition = one "
    "(state, threshold) pair whose cm/rates/pointwise_cm were compared with counting; "
    "non-trivial = threshold within [min,max] of the scores (not every sample in one column); "
    "distinct by construction (each tuple enumerated once)"
)
ASSUMPTIONS = [
    "NumPy sort/searchsorted trusted only through comparison with plain-Python counting",
    "scores of moderate magnitude (grids in [-64,64]); sizes bounded as in coverage.bounds",
]

RATES = ["tpr", "fnr", "tnr", "fpr", "topr", "tonr"]
ALIASES = {
    "tar": "tpr",
    "frr": "fnr",
    "trr": "tnr",
    "far": "fpr",
    "acceptance_rate": "topr",
    "rejection_rate": "tonr",
}


def bounds(tier):
    if tier == "quick":
        return {
            "max_pos": 3,
            "max_neg": 3,
            "easy": [0, 1, 2],
            "grids": ["irregular", "int", "dyadic", "uint", "ulp_pow2"],
            "threshold_alphabet": "4m+3 relative points incl. ulp neighbours and +-inf",
            "input_forms": "all permutations (<=3 per class), list/int64/float64/float32, "
            "from_labels, is_sorted=True",
        }
    return {
        "max_pos": 5,
        "max_neg": 5,
        "easy": [0, 1, 2, 3],
        "grids": ["irregular", "int", "dyadic", "negated", "ulp", "ulp_pow2", "symmetric", "uint"],
        "threshold_alphabet": "4m+3 relative points incl. ulp neighbours and +-inf",
        "input_forms": "all permutations (<=3 per class; reversed+rotation beyond), "
        "list/int64/float64/float32, from_labels, is_sorted=True",
    }


def work(tier, seed):
    b = bounds(tier)
    items = []
    for bl in ot.order_types(b["max_pos"], b["max_neg"]):
        n = sum(a + c for a, c in bl)
        for kind in b["grids"]:
            if kind in ("ulp", "ulp_pow2", "symmetric", "negated", "dyadic") and n > 7:
                continue
            items.append({"blocks": [list(x) for x in bl], "grid": kind})
        if n <= (4 if tier == "quick" else 6):
            for kind in ot.MIXED_KINDS:
                items.append({"blocks": [list(x) for x in bl], "grid": kind})
    for n in (ot.LADDER_QUICK if tier == "quick" else ot.LADDER_THOROUGH):
        items.append({"ladder": n})
    for bl in ot.order_types(2, 2) if tier == "quick" else ot.order_types(3, 3):
        items.append({"bigint": [list(x) for x in bl]})
    for dt in ("float32", "float16", "float64", "uint8"):
        items.append({"scalar_kinds": dt})
    return items


def _run_mixed(item, ctx, blocks):
    """The two classes are stored in different dtypes (ordertypes.concretise_mixed): counting, row sums, rates."""
    from score_analysis import Scores

    pos, neg, vals, parr, narr = ot.concretise_mixed(blocks, item["grid"])
    T = ot.threshold_alphabet(vals)
    Tarr = np.array(T, dtype=float)
    for cfg in ot.CFGS:
        sc, ec = cfg
        for ep, en in ((0, 0), (2, 1)):
            case = {"blocks": item["blocks"], "grid": item["grid"], "pos": pos, "neg": neg, "pos_dtype": parr.dtype.name,
                    "neg_dtype": narr.dtype.name, "cfg": cfg, "easy": [ep, en]}
            ctx.state()
            ok, s = guarded(ctx, "construct", case, Scores, parr.copy(), narr.copy(), nb_easy_pos=ep, nb_easy_neg=en, score_class=sc,
                            equal_class=ec)
            if not ok:
                continue
            ok, m = guarded(ctx, "cm-array", case, lambda: s.cm(Tarr).matrix.tolist())
            if not ok:
                continue
            for k, t in enumerate(T):
                exp = refs.ref_cm(pos, neg, t, sc, ec, ep, en)
                ctx.tick()
                ctx.nontrivial()
                if m[k] != exp:
                    ctx.fail("cm-equals-counting", dict(case, threshold=t), observed=m[k], expected=exp)
                    break
                ok2, ms = guarded(ctx, "cm-scalar", dict(case, threshold=t), lambda: s.cm(t).matrix.tolist())
                ctx.tick()
                if ok2 and ms != exp:
                    ctx.fail("cm-scalar-equals-array", dict(case, threshold=t), observed=ms, expected=exp)
                    break
            for name in RATES:
                ok, rv = guarded(ctx, "rate-" + name, case, lambda: np.asarray(getattr(s, name)(Tarr), dtype=float).tolist())
                if not ok:
                    continue
                for k, t in enumerate(T):
                    want = refs.ref_rates(refs.ref_cm(pos, neg, t, sc, ec, ep, en))[name]
                    ctx.tick()
                    if not refs.same_float(rv[k], want):
                        ctx.fail("rate-equals-ratio-of-counts", dict(case, threshold=t, rate=name), observed=rv[k],
                                 expected=None if want is None else float(want))
                        break
            ctx.outcome((item["grid"], cfg, ep, en, str(m)))
    ctx.sample({"blocks": item["blocks"], "grid": item["grid"], "pos": pos, "neg": neg})
    return None


def _snippet(pos, neg, cfg, ep, en, t):
    return (
        "import numpy as np\nfrom score_analysis import Scores\n"
        f"s = Scores({pos!r}, {neg!r}, nb_easy_pos={ep}, nb_easy_neg={en}, "
        f"score_class={cfg[0]!r}, equal_class={cfg[1]!r})\n"
        f"print(s.cm({t!r}).matrix)  # expected by counting: see 'expected'\n"
    )


def run(item, ctx, tier, seed):
    from score_analysis import Scores
    from score_analysis.scores import pointwise_cm

    b = bounds(tier)
    if "ladder" in item:
        return _run_ladder(item, ctx, seed)
    if "bigint" in item:
        return _run_bigint(item, ctx)
    if "scalar_kinds" in item:
        return _run_scalar_kinds(item, ctx)
    blocks = [tuple(x) for x in item["blocks"]]
    if item["grid"] in ot.MIXED_KINDS:
        return _run_mixed(item, ctx, blocks)
    pos, neg, vals = ot.concretise(blocks, item["grid"], seed)
    T = ot.threshold_alphabet(vals)
    if item["grid"] in ("int", "uint"):
        T = T + ot.INT_SENTINELS
    Tarr = np.array(T, dtype=float)
    lo, hi = (min(vals), max(vals)) if vals else (math.inf, -math.inf)
    nontriv_t = [lo <= t <= hi for t in T]
    easy_menu = list(itertools.product(b["easy"], repeat=2))
    is_int = item["grid"] in ("int", "uint")
    big = len(pos) + len(neg) > 7  # thorough tier: the many large order types get a reduced menu
    if big:
        easy_menu = [(0, 0), (b["easy"][-1], 1), (1, 2)]
    else:  # counts beyond 2^31 and 2^32: easy samples are counted, never held, so these cost nothing
        easy_menu += [(3_000_000_000, 1), (2, 5_000_000_000)]

    # ---- input forms: every one must give the same sorted object ----------
    forms = []
    pos_perms = ot.permutations_of(pos, 3)
    neg_perms = ot.permutations_of(neg, 3)
    forms.append(("list", pos, neg, {}))
    for pp in pos_perms[1:]:
        forms.append(("perm", pp, neg, {}))
    for nn in neg_perms[1:]:
        forms.append(("perm", pos, nn, {}))
    if pos_perms[1:] and neg_perms[1:]:
        forms.append(("perm", pos_perms[-1], neg_perms[-1], {}))
    dt = np.uint8 if item["grid"] == "uint" else (np.int64 if is_int else np.float64)
    forms.append(("ndarray", np.array(pos[::-1], dtype=dt), np.array(neg[::-1], dtype=dt), {}))
    if item["grid"] == "irregular":
        forms.append(
            ("float32", np.array(pos[::-1], dtype=np.float32), np.array(neg[::-1], dtype=np.float32), {})
        )
    forms.append(("is_sorted", list(pos), list(neg), {"is_sorted": True}))
    if big:
        forms = [forms[0], forms[-2 if item["grid"] != "irregular" else -3], forms[-1]]

    for cfg in ot.CFGS:
        sc, ec = cfg
        ref0 = [refs.ref_cm(pos, neg, t, sc, ec) for t in T]
        for fi, (fname, fp, fn, kw) in enumerate(forms):
            easy_here = easy_menu if fi == 0 else [(0, 0), (b["easy"][-1], 1)]
            for ep, en in easy_here:
                case = {
                    "blocks": item["blocks"],
                    "grid": item["grid"],
                    "form": fname,
                    "pos": fp,
                    "neg": fn,
                    "cfg": cfg,
                    "easy": [ep, en],
                }
                ctx.state()
                # (score_class / equal_class as literal, run-time built and NumPy strings, rotating over the states)
                kind_i = (fi + ep + 2 * en) % 3
                ok, s = guarded(
                    ctx, "construct", case, Scores, fp, fn,
                    nb_easy_pos=ep, nb_easy_neg=en, score_class=ot.string_kinds(sc)[kind_i][1], equal_class=ot.string_kinds(ec)[(kind_i + 1) % 3][1], **kw
                )
                if not ok:
                    continue
                ok, m = guarded(ctx, "cm-array", case, lambda: s.cm(Tarr).matrix)
                if not ok:
                    continue
                if m.shape != (len(T), 2, 2):
                    ctx.fail("cm-shape", case, observed=list(m.shape), expected=[len(T), 2, 2])
                    continue
                ml = m.tolist()
                psum, nsum = len(pos) + ep, len(neg) + en
                for k, t in enumerate(T):
                    r = ref0[k]
                    exp = [[r[0][0] + ep, r[0][1]], [r[1][0], r[1][1] + en]]
                    ctx.tick()
                    if nontriv_t[k]:
                        ctx.nontrivial()
                    if ml[k] != exp:
                        ctx.fail(
                            "cm-equals-counting",
                            dict(case, threshold=t),
                            observed=ml[k],
                            expected=exp,
                            snippet=_snippet(list(map(float, fp)) if not is_int else list(map(int, fp)),
                                             list(map(float, fn)) if not is_int else list(map(int, fn)),
                                             cfg, ep, en, t),
                        )
                    if ml[k][0][0] + ml[k][0][1] != psum or ml[k][1][0] + ml[k][1][1] != nsum:
                        ctx.fail(
                            "row-sums-constant",
                            dict(case, threshold=t),
                            observed=ml[k],
                            expected=[psum, nsum],
                        )
                    ctx.outcome((cfg, ep, en, tuple(map(tuple, ml[k]))))
                if fi == 0 and (ep, en) in ((0, 0), (b["easy"][-1], 1)) and len(T) > 2:
                    # the caller reuses one threshold buffer: fill, query, refill in place, query again
                    buf = Tarr.copy()
                    ok, _ = guarded(ctx, "cm-buffer", case, lambda: s.cm(buf).matrix)
                    buf[:] = buf[::-1].copy()
                    ok2, m2 = guarded(ctx, "cm-buffer", case, lambda: s.cm(buf).matrix)
                    ctx.tick()
                    if ok and ok2 and m2.tolist() != ml[::-1]:
                        ctx.fail("cm-equals-counting-after-buffer-refill", case, observed=m2.tolist(), expected=ml[::-1])
                if fi == 0:
                    # scalar calls (for a sub-menu of easy counts) and the six rates
                    if (ep, en) in ((0, 0), (b["easy"][-1], 1)) or max(ep, en) > 10**9:
                        for k, t in enumerate(T):
                            ok, ms = guarded(ctx, "cm-scalar", dict(case, threshold=t), lambda: s.cm(t).matrix)
                            ctx.tick()
                            if ok and (ms.shape != (2, 2) or ms.tolist() != ml[k]):
                                ctx.fail(
                                    "cm-scalar-equals-array",
                                    dict(case, threshold=t),
                                    observed=ms.tolist(),
                                    expected=ml[k],
                                )
                    for name in RATES:
                        ok, rv = guarded(ctx, "rate-" + name, case, lambda: getattr(s, name)(Tarr))
                        if not ok:
                            continue
                        rv = np.asarray(rv, dtype=float).tolist()
                        for k, t in enumerate(T):
                            r = ref0[k]
                            exp = [[r[0][0] + ep, r[0][1]], [r[1][0], r[1][1] + en]]
                            want = refs.ref_rates(exp)[name]
                            ctx.tick()
                            if not refs.same_float(rv[k], want):
                                ctx.fail(
                                    "rate-equals-ratio-of-counts",
                                    dict(case, threshold=t, rate=name),
                                    observed=rv[k],
                                    expected=None if want is None else float(want),
                                )
                    if (ep, en) == (1, 2) or (ep, en) == (0, 0):
                        for al, orig in ALIASES.items():
                            ok, av = guarded(ctx, "alias-" + al, case, lambda: getattr(s, al)(Tarr))
                            if ok:
                                ctx.tick()
                                ov = getattr(s, orig)(Tarr)
                                if not np.array_equal(np.asarray(av), np.asarray(ov), equal_nan=True):
                                    ctx.fail("alias", dict(case, alias=al), observed=av, expected=ov)
        # ---- derived objects (swap, bootstrap samples incl. smoothing) are judged on their own arrays ----
        if item["grid"] == "irregular" and not big and pos and neg:
            from mc.derived import derived_objects

            ok, s0 = guarded(ctx, "construct", {"pos": pos, "neg": neg, "cfg": cfg}, Scores, pos[::-1], neg[::-1], nb_easy_pos=1,
                             nb_easy_neg=2, score_class=sc, equal_class=ec)
            for how, d in (derived_objects(s0, seed) if ok else []):
                dp, dn = np.asarray(d.pos, dtype=float).tolist(), np.asarray(d.neg, dtype=float).tolist()
                dvals = sorted(set(dp + dn))
                DT = ot.threshold_alphabet(dvals) if dvals else [0.0]
                case = {"blocks": item["blocks"], "source_pos": pos, "source_neg": neg, "cfg": cfg, "derived": how,
                        "pos": dp, "neg": dn}
                ctx.state()
                okd, md = guarded(ctx, "cm-derived", case, lambda: d.cm(np.array(DT)).matrix.tolist())
                ctx.tick(len(DT))
                if okd:
                    dsc, dec = d.score_class.value, d.equal_class.value
                    for k, t in enumerate(DT):
                        exp = refs.ref_cm(dp, dn, t, dsc, dec, int(d.nb_easy_pos), int(d.nb_easy_neg))
                        if md[k] != exp:
                            ctx.fail("cm-equals-counting-on-derived-object", dict(case, threshold=t), observed=md[k], expected=exp)
                            break
        # ---- from_labels with a permuted label vector ----------------------
        lab = [1] * len(pos) + [0] * len(neg)
        scs = list(pos) + list(neg)
        order = list(range(len(lab)))
        for variant in range(3):
            if variant == 1:
                order = order[::-1]
            elif variant == 2:
                order = order[1::2] + order[0::2]
            ll = [lab[i] for i in order]
            ss = [scs[i] for i in order]
            label_forms = [(1, ll), ("p", ["p" if x else "q" for x in ll])]
            if variant == 1:
                # boolean labels whose *False* marks the positive class; a pos_label of another type that compares
                # equal (0 == False); float labels
                label_forms += [(False, np.array([not bool(x) for x in ll], dtype=bool)), (0, [not bool(x) for x in ll]),
                                (2.5, [2.5 if x else -1.0 for x in ll])]
            for pos_label, labels in label_forms:
                case = {"blocks": item["blocks"], "grid": item["grid"], "form": "from_labels",
                        "labels": labels, "scores": ss, "cfg": cfg, "pos_label": pos_label}
                ctx.state()
                ok, s = guarded(
                    ctx, "from_labels", case,
                    lambda: Scores.from_labels(labels, ss, pos_label=pos_label, score_class=sc,
                                               equal_class=ec, nb_easy_pos=1, nb_easy_neg=2),
                )
                if ok:
                    ok, m = guarded(ctx, "from_labels-cm", case, lambda: s.cm(Tarr).matrix.tolist())
                    if ok:
                        for k, t in enumerate(T):
                            r = ref0[k]
                            exp = [[r[0][0] + 1, r[0][1]], [r[1][0], r[1][1] + 2]]
                            ctx.tick()
                            if m[k] != exp:
                                ctx.fail("from_labels-cm-equals-counting", dict(case, threshold=t),
                                         observed=m[k], expected=exp)
                # pointwise_cm on the same labelled data
                ctx.state()
                ok, pw = guarded(
                    ctx, "pointwise_cm", case,
                    lambda: pointwise_cm(labels, ss, Tarr, pos_label=pos_label, score_class=sc, equal_class=ec),
                )
                if not ok:
                    continue
                if pw.shape != (len(ss), len(T), 2, 2):
                    ctx.fail("pointwise-shape", case, observed=list(pw.shape), expected=[len(ss), len(T), 2, 2])
                    continue
                if pw.dtype != bool:
                    ctx.fail("pointwise-dtype", case, observed=str(pw.dtype), expected="bool")
                tot = pw.sum(axis=0).tolist()
                per_sample = pw.reshape(len(ss), len(T), 4).sum(axis=2)
                for k, t in enumerate(T):
                    ctx.tick()
                    if tot[k] != ref0[k]:
                        ctx.fail("pointwise-sum-equals-counting", dict(case, threshold=t),
                                 observed=tot[k], expected=ref0[k])
                if len(ss) and not np.all(per_sample == 1):
                    ctx.fail("pointwise-one-cell-per-sample", case, observed=per_sample.tolist(), expected="all 1")
                # membership of each individual sample
                for i in range(len(ss)):
                    for k in (0, len(T) // 2, len(T) - 1):
                        pred = refs.predicted_positive(ss[i], T[k], sc, ec)
                        is_pos = labels[i] == pos_label
                        cell = [[is_pos and pred, is_pos and not pred], [not is_pos and pred, not is_pos and not pred]]
                        if pw[i, k].tolist() != cell:
                            ctx.fail("pointwise-membership", dict(case, sample=i, threshold=T[k]),
                                     observed=pw[i, k].tolist(), expected=cell)
    ctx.sample({"blocks": item["blocks"], "grid": item["grid"], "pos": pos, "neg": neg,
                "thresholds": T[:6] + ["..."], "cfgs": ot.CFGS})
    return None


def _run_ladder(item, ctx, seed):
    """Much larger deterministic datasets (sizes around typical internal switches), counted with bisect."""
    from score_analysis import Scores
    from score_analysis.scores import pointwise_cm

    n = item["ladder"]
    for tie_free in (False, True):
        pos, neg = ot.ladder_dataset(n, tie_free, seed)
        spos, sneg = sorted(pos), sorted(neg)
        T = ot.ladder_thresholds(pos, neg)
        Tarr = np.array(T)
        for dt in (np.float64, np.float32):
            if dt is np.float32 and n > 5000:
                continue
            for cfg in ot.CFGS:
                for ep, en in ((0, 0), (3, 5)):
                    case = {"ladder_n": n, "tie_free": tie_free, "dtype": np.dtype(dt).name, "cfg": cfg, "easy": [ep, en],
                            "n_pos": len(pos), "n_neg": len(neg)}
                    ctx.state()
                    ok, s = guarded(ctx, "construct", case, Scores, np.array(pos, dtype=dt), np.array(neg, dtype=dt), nb_easy_pos=ep,
                                    nb_easy_neg=en, score_class=cfg[0], equal_class=cfg[1])
                    if not ok:
                        continue
                    ok, m = guarded(ctx, "cm-array", case, lambda: s.cm(Tarr).matrix.tolist())
                    if not ok:
                        continue
                    for k, t in enumerate(T):
                        ctx.tick()
                        ctx.nontrivial()
                        exp = refs.ref_cm_sorted(spos, sneg, t, cfg[0], cfg[1], ep, en)
                        if m[k] != exp:
                            ctx.fail("cm-equals-counting", dict(case, threshold=t), observed=m[k], expected=exp)
                            break
                    for r in RATES:
                        ok, rv = guarded(ctx, "rate-" + r, case, lambda: np.asarray(getattr(s, r)(Tarr), dtype=float).tolist())
                        if not ok:
                            continue
                        for k, t in enumerate(T):
                            want = refs.ref_rates(refs.ref_cm_sorted(spos, sneg, t, cfg[0], cfg[1], ep, en))[r]
                            ctx.tick()
                            if not refs.same_float(rv[k], want):
                                ctx.fail("rate-equals-ratio-of-counts", dict(case, threshold=t, rate=r), observed=rv[k],
                                         expected=None if want is None else float(want))
                                break
        # the object after it has been *used*: bootstrap samples drawn from it (with and without smoothing, every method)
        # and its own score arrays (views of them, reversed) handed back to it as thresholds - its matrices still count
        if tie_free or n <= 300:
            from score_analysis import BootstrapConfig
            from score_analysis.roc_curve import roc

            for cfg in ot.CFGS[1:3]:
                su = Scores(np.array(pos[::-1]), np.array(neg[::-1]), nb_easy_pos=1, nb_easy_neg=2, score_class=cfg[0], equal_class=cfg[1])
                case = {"ladder_n": n, "tie_free": tie_free, "cfg": cfg, "easy": [1, 2],
                        "history": "bootstrap_sample x5 (smoothing / replacement / single_pass / proportion); roc, cm, rates and thresholds with views of its own arrays"}
                st = np.random.get_state()
                np.random.seed(seed + n)
                try:
                    for bc in (BootstrapConfig(smoothing=True), BootstrapConfig(sampling_method="replacement", stratified_sampling="by_label"),
                               BootstrapConfig(sampling_method="single_pass"), BootstrapConfig(sampling_method="proportion", ratio=0.5),
                               BootstrapConfig(sampling_method="dynamic", smoothing=True, stratified_sampling="by_label")):
                        guarded(ctx, "bootstrap_sample", case, su.bootstrap_sample, bc)
                    guarded(ctx, "bootstrap_ci", case, lambda: su.bootstrap_ci("eer", config=BootstrapConfig(nb_samples=3, smoothing=True)))
                finally:
                    np.random.set_state(st)
                for call in (lambda: roc(su, thresholds=su.pos[::-1]), lambda: roc(su, thresholds=su.neg[::-2]), lambda: su.cm(su.neg[::-1]),
                             lambda: su.tpr(su.pos[::-1]), lambda: su.threshold_at_fnr(np.linspace(1, 0, 7)), lambda: roc(su, thresholds=su.swap().pos[::-1]),
                             lambda: su.swap().cm(su.pos[::-1])):
                    guarded(ctx, "alias-call", case, call)
                ok, mu = guarded(ctx, "cm-array", case, lambda: su.cm(Tarr).matrix.tolist())
                ctx.state()
                ctx.tick(len(T))
                if ok:
                    for k, t in enumerate(T):
                        exp = refs.ref_cm_sorted(spos, sneg, t, cfg[0], cfg[1], 1, 2)
                        if mu[k] != exp:
                            ctx.fail("cm-equals-counting-after-use", dict(case, threshold=t), observed=mu[k], expected=exp)
                            break
        # a long, unsorted threshold array (argument sizes are part of the ladder, too)
        if not tie_free:
            base_T = [t for t in T if t == t]
            L = 3 * n + 7 if n >= 1000 else 257
            longT = [base_T[(i * 7919 + 13) % len(base_T)] for i in range(L)]
            la = np.array(longT).reshape(-1)
            for cfg in ot.CFGS[::3]:
                sL = Scores(np.array(pos), np.array(neg), nb_easy_pos=2, nb_easy_neg=1, score_class=cfg[0], equal_class=cfg[1])
                case = {"ladder_n": n, "cfg": cfg, "thresholds": f"{L} unsorted thresholds", "easy": [2, 1]}
                for shape in ((L,), (L // 1, 1) if L % 1 == 0 else (L,)):
                    ok, mL = guarded(ctx, "cm-long-array", case, lambda: sL.cm(la.reshape(shape)).matrix.reshape(L, 2, 2).tolist())
                    ctx.tick(L)
                    ctx.state()
                    if not ok:
                        continue
                    cache = {}
                    for k, t in enumerate(longT):
                        if t not in cache:
                            cache[t] = refs.ref_cm_sorted(spos, sneg, t, cfg[0], cfg[1], 2, 1)
                        if mL[k] != cache[t]:
                            ctx.fail("cm-equals-counting", dict(case, index=k, threshold=t, shape=list(shape)), observed=mL[k], expected=cache[t])
                            break
                # the caller keeps the first result while asking again with other thresholds of the same shape
                ok, held = guarded(ctx, "cm-long-array", case, lambda: sL.cm(la).matrix)
                if ok:
                    snapshot = np.array(held, copy=True)
                    guarded(ctx, "cm-long-array", case, lambda: sL.cm(la[::-1].copy()).matrix)
                    guarded(ctx, "cm-long-array", case, lambda: sL.tpr(la + 0.125))
                    guarded(ctx, "cm-long-array", case, lambda: sL.cm(la * 0.5).matrix)
                    ctx.tick(3)
                    if not np.array_equal(held, snapshot):
                        k = int(np.argmax(np.any(np.asarray(held) != snapshot, axis=(1, 2))))
                        ctx.fail("returned-matrix-not-overwritten-by-later-calls", dict(case, index=k, threshold=longT[k]),
                                 observed=np.asarray(held)[k], expected=snapshot[k])
        if n <= 1100:
            labels = [1] * len(pos) + [0] * len(neg)
            ss = pos + neg
            for cfg in ot.CFGS[::3]:
                ok, pw = guarded(ctx, "pointwise_cm", {"ladder_n": n, "cfg": cfg}, lambda: pointwise_cm(labels, ss, Tarr, score_class=cfg[0], equal_class=cfg[1]))
                ctx.tick()
                if ok:
                    tot = pw.sum(axis=0).tolist()
                    for k, t in enumerate(T):
                        if tot[k] != refs.ref_cm_sorted(spos, sneg, t, cfg[0], cfg[1]):
                            ctx.fail("pointwise-sum-equals-counting", {"ladder_n": n, "cfg": cfg, "threshold": t}, observed=tot[k],
                                     expected=refs.ref_cm_sorted(spos, sneg, t, cfg[0], cfg[1]))
                            break
    ctx.sample({"ladder_n": n, "thresholds": len(T)})
    return None


def _run_scalar_kinds(item, ctx):
    """One threshold handed to pointwise_cm / Scores.cm as Python float or int, NumPy scalar, 0-d array, 1-element
    array or list, on scores stored in a narrow dtype: the decision rule applies to the number itself."""
    from score_analysis import Scores
    from score_analysis.scores import pointwise_cm

    dt = np.dtype(item["scalar_kinds"])
    raw = [0.7, 0.1, 0.3, 2.5, 0.7, 0.2, 0.6, 1.1] if dt.kind == "f" else [7, 1, 3, 25, 7, 2, 6, 11]
    labels = [1, 1, 1, 1, 0, 0, 0, 0]
    scores = np.array(raw, dtype=dt)
    exact = [float(v) for v in scores.tolist()]
    pos = [v for v, l in zip(exact, labels) if l == 1]
    neg = [v for v, l in zip(exact, labels) if l == 0]
    thr = []
    for v in sorted(set(exact)):
        thr += [v, math.nextafter(v, math.inf), math.nextafter(v, -math.inf), round(v, 1), round(v, 2) + 1e-9, float(int(v)), float(int(v) + 1)]
    thr = list(dict.fromkeys(thr + [0.7, 0.1, 0.3, 0.2, 0.6, 1.1]))
    for cfg in ot.CFGS:
        sc, ec = cfg
        for t in thr:
            want = refs.ref_cm(pos, neg, t, sc, ec)
            kinds = [("python-float", t), ("np.float64", np.float64(t)), ("0-d-array", np.array(t)), ("1-element-array", np.array([t])), ("list", [t])]
            if float(t).is_integer():
                kinds.append(("python-int", int(t)))
            ctx.state()
            for kname, arg in kinds:
                case = {"score_dtype": dt.name, "scores": exact, "labels": labels, "cfg": cfg, "threshold": t, "passed_as": kname}
                ok, pw = guarded(ctx, "pointwise_cm", case, lambda: np.asarray(pointwise_cm(labels, scores, arg, score_class=sc, equal_class=ec)))
                ctx.tick()
                if float(np.asarray(t, dtype=dt)) != t:
                    ctx.nontrivial()
                if ok:
                    tot = pw.reshape(len(labels), -1, 2, 2).sum(axis=0)[0].tolist()
                    if tot != want:
                        ctx.fail("pointwise-sum-equals-counting", case, observed=tot, expected=want)
                ok, m = guarded(ctx, "from_labels-cm", case, lambda: np.asarray(
                    Scores.from_labels(labels, scores, score_class=sc, equal_class=ec).cm(arg).matrix).reshape(-1, 2, 2)[0].tolist())
                ctx.tick()
                if ok and m != want:
                    ctx.fail("cm-equals-counting", case, observed=m, expected=want)
    ctx.sample({"scalar_kinds": dt.name, "thresholds": len(thr)})
    return None


def _run_bigint(item, ctx):
    """Integer scores beyond 2**53 (ids, nanosecond time stamps) with integer thresholds: exact integer comparisons."""
    from score_analysis import Scores
    from score_analysis.scores import pointwise_cm

    blocks = [tuple(x) for x in item["bigint"]]
    for base in (2 ** 53, -(2 ** 62), 2 ** 63 - 64):
        vals = [base + 1 + 2 * i for i in range(len(blocks))]  # odd offsets: not representable in float64
        pos, neg = [], []
        for v, (a, c) in zip(vals, blocks):
            pos += [v] * a
            neg += [v] * c
        T = sorted(set([v + d for v in vals for d in (-1, 0, 1)] + [base - 5, base + 40]))
        for cfg in ot.CFGS:
            case = {"blocks": item["bigint"], "pos": pos, "neg": neg, "cfg": cfg, "thresholds": "integer thresholds next to each score"}
            ctx.state()
            ok, s = guarded(ctx, "construct", case, Scores, np.array(pos[::-1], dtype=np.int64), np.array(neg[::-1], dtype=np.int64),
                            nb_easy_pos=1, nb_easy_neg=2, score_class=cfg[0], equal_class=cfg[1])
            if not ok:
                continue
            for targ, how in ((np.array(T, dtype=np.int64), "int64 array"), (list(T), "list of Python ints")):
                ok, m = guarded(ctx, "cm-bigint", dict(case, threshold_form=how), lambda: s.cm(targ).matrix.tolist())
                if not ok:
                    continue
                for k, t in enumerate(T):
                    ctx.tick()
                    ctx.nontrivial()
                    exp = refs.ref_cm(pos, neg, t, cfg[0], cfg[1], 1, 2)
                    if m[k] != exp:
                        ctx.fail("cm-equals-counting", dict(case, threshold=t, threshold_form=how), observed=m[k], expected=exp)
                        break
            for t in T[::3]:
                ok, ms = guarded(ctx, "cm-bigint-scalar", dict(case, threshold=t), lambda: s.cm(t).matrix.tolist())
                ctx.tick()
                if ok and ms != refs.ref_cm(pos, neg, t, cfg[0], cfg[1], 1, 2):
                    ctx.fail("cm-equals-counting", dict(case, threshold=t, threshold_form="Python int"), observed=ms,
                             expected=refs.ref_cm(pos, neg, t, cfg[0], cfg[1], 1, 2))
            labels = [1] * len(pos) + [0] * len(neg)
            ok, pw = guarded(ctx, "pointwise-bigint", case, lambda: pointwise_cm(labels, np.array(pos + neg, dtype=np.int64), np.array(T, dtype=np.int64),
                                                                               score_class=cfg[0], equal_class=cfg[1]).sum(axis=0).tolist())
            ctx.tick()
            if ok:
                for k, t in enumerate(T):
                    if pw[k] != refs.ref_cm(pos, neg, t, cfg[0], cfg[1]):
                        ctx.fail("pointwise-sum-equals-counting", dict(case, threshold=t), observed=pw[k], expected=refs.ref_cm(pos, neg, t, cfg[0], cfg[1]))
                        break
    ctx.sample({"bigint": item["bigint"], "bases": ["2**53", "-2**62", "2**63-64"]})
    return None

"""
Cross-process reproducibility: the same seeded script run in fresh interpreters that differ only in
PYTHONHASHSEED must print the same results.  An in-process harness cannot see an iteration order that depends on
string hashing (set / dict-of-set order): within one process it is self-consistent.
"""
import json
import os
import subprocess
import sys

from mc import harness


def run_script(script, hash_seeds=(1, 2, 3), timeout=300):
    """-> {hash_seed: parsed JSON printed by the script (last line)}; a failing interpreter yields {'error': ...}."""
    out = {}
    for hs in hash_seeds:
        env = dict(os.environ, PYTHONHASHSEED=str(hs), PYTHONDONTWRITEBYTECODE="1", VERIF_SCRIPT_REPO=harness.REPO)
        pre = ("import sys, os, warnings, json\nwarnings.simplefilter('ignore')\nsys.dont_write_bytecode = True\n"
               "sys.path.insert(0, os.environ['VERIF_SCRIPT_REPO'])\nimport numpy as np\nimport score_analysis\n"
               "assert os.path.abspath(score_analysis.__file__).startswith(os.environ['VERIF_SCRIPT_REPO'] + os.sep)\n")
        try:
            p = subprocess.run([sys.executable, "-c", pre + script], env=env, capture_output=True, text=True, timeout=timeout)
        except subprocess.TimeoutExpired:
            out[hs] = {"error": "timeout"}
            continue
        if p.returncode != 0:
            out[hs] = {"error": p.stderr.strip().splitlines()[-1:] or ["exit %d" % p.returncode]}
            continue
        try:
            out[hs] = json.loads(p.stdout.strip().splitlines()[-1])
        except Exception as e:  # noqa
            out[hs] = {"error": "unparsable output: %r" % (e,)}
    return out

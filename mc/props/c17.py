"""C17 - general threshold search returns true solutions of the interpolated metric."""

from __future__ import annotations

import itertools
import math

import numpy as np

from mc import ordertypes as ot
from mc.harness import guarded

ID = "C17"
TITLE = "General threshold search returns true solutions of the interpolated metric"
ENGINE = "array-enumerator"
RULE = (
    "state = one sampled curve (x non-decreasing over the x-alphabet, y over the y-alphabet, equal y on duplicated "
    "x) or one (Scores order type, cfg, metric, points) tuple; transition = one invert_pl_function / "
    "threshold_at_metric call (per target) judged by re-evaluating the piecewise-linear interpolant at every "
    "returned point; non-trivial = the curve is non-monotone or has a flat/duplicated part, and the target lies "
    "within [min y, max y]; distinct by construction"
)
ASSUMPTIONS = [
    "x alphabet {0,1,1.5,4}, y alphabet {-1,0,.5,1,2}, targets -2..3 step .5; curve length <= 4 (5 thorough)",
    "interpolant re-evaluated in plain Python, tolerance 1e-9",
    "completeness is only demanded for strict crossings of a segment (one solution strictly inside)",
]
XS = [0.0, 1.0, 1.5, 4.0]
YS = [-1.0, 0.0, 0.5, 1.0, 2.0]
TARGETS = [-2.0 + 0.5 * i for i in range(11)]
NAMED = ["fnr", "fpr", "tpr", "tnr", "topr", "tonr"]
# (dtype, images of XS, images of YS, targets)
INT_VARIANTS = [
    (np.uint8, [0, 100, 120, 250], [0, 50, 100, 200, 250], [-10, 0, 25, 50, 75, 100, 150, 225, 250, 300]),
    (np.int8, [-120, -10, 0, 120], [-120, -50, 0, 60, 120], [-130, -120, -85, -50, 0, 30, 60, 90, 120, 127]),
    (np.int64, [-120, -10, 0, 120], [-120, -50, 0, 60, 120], [-130, -120, -85, -50, 0, 30, 60, 90, 120, 127]),
]


def bounds(tier):
    if tier == "quick":
        return {"max_len": 4, "x": XS, "y": YS, "targets": TARGETS, "scores_max": [3, 3],
                "points": ["None", 2, 3, 7, "array"], "unit_points": [50, 99, 104]}
    return {"max_len": 5, "x": XS, "y": YS, "targets": TARGETS, "scores_max": [4, 3],
            "points": ["None", 2, 3, 7, 11, "array"], "unit_points": list(range(2, 200))}


def curves(max_len):
    out = []
    for n in range(1, max_len + 1):
        for xs in itertools.combinations_with_replacement(range(len(XS)), n):
            x = [XS[i] for i in xs]
            # groups of equal x must share y
            groups = []
            for i, v in enumerate(x):
                if i and v == x[i - 1]:
                    groups[-1].append(i)
                else:
                    groups.append([i])
            for ys in itertools.product(YS, repeat=len(groups)):
                y = [0.0] * n
                for g, v in zip(groups, ys):
                    for i in g:
                        y[i] = v
                out.append((x, y))
    return out


def work(tier, seed):
    b = bounds(tier)
    cs = curves(b["max_len"])
    n = 48
    items = [{"kind": "curves", "part": i, "parts": n} for i in range(n)]
    P, Q = b["scores_max"]
    for bl in ot.order_types(P, Q):
        items.append({"kind": "scores", "blocks": [list(x) for x in bl]})
    # long curves: samples x targets beyond 2^22 (and 2^23), one crossing in every segment or at chosen segments
    for spec in LONG_CURVES if tier == "quick" else LONG_CURVES + LONG_CURVES_THOROUGH:
        items.append({"kind": "long_curve", "spec": spec})
    return items


LONG_CURVES = [{"n": 2100, "targets": "every-segment"}, {"n": 3000, "targets": "every-segment"}, {"n": 4200, "targets": "every-segment"},
               {"n": 6000, "targets": "every-segment"},
               {"n": 70001, "targets": "near-powers-of-two", "t": 64}, {"n": 2 ** 22 + 5, "targets": "near-powers-of-two", "t": 8}, {"n": 250001, "targets": "near-powers-of-two", "t": 24},
               {"n": 2 ** 21 + 9, "targets": "near-powers-of-two", "t": 2}, {"n": 1500, "targets": "zigzag", "t": 3000}]
LONG_CURVES_THOROUGH = [{"n": 9000, "targets": "every-segment"}, {"n": 300001, "targets": "near-powers-of-two", "t": 16},
                        {"n": 2 ** 23 + 3, "targets": "near-powers-of-two", "t": 1}]


def _run_long_curve(item, ctx):
    from score_analysis.utils import invert_pl_function

    spec = item["spec"]
    n = spec["n"]
    x = np.arange(n, dtype=float) * 0.5 + (np.arange(n) % 3) * 0.125  # strictly increasing, irregular spacing
    case = {"kind": "long_curve", **spec}
    ctx.state()
    if spec["targets"] == "zigzag":
        # y alternates 0,1,0,1..: every target in (0,1) is crossed in every segment
        y = (np.arange(n) % 2).astype(float)
        T = spec["t"]
        targets = np.array([(k + 0.5) / T for k in range(T)])
        ok, res = guarded(ctx, "long-call", case, invert_pl_function, x, y, targets)
        ctx.tick(T)
        if ok:
            for k in (0, 1, T // 2, T - 1):
                sol = np.asarray(res[k], dtype=float)
                t = targets[k]
                want = np.where(y[:-1] == 0, x[:-1] + t * (x[1:] - x[:-1]), x[:-1] + (1 - t) * (x[1:] - x[:-1]))
                ctx.nontrivial()
                if sol.shape != want.shape or not np.allclose(sol, want, rtol=1e-12, atol=0):
                    ctx.fail("strict-crossing-reported", dict(case, t=float(t)), observed={"solutions": int(sol.size)}, expected={"solutions": int(want.size)})
                    break
        ctx.sample(case)
        return None
    y = np.arange(n, dtype=float)  # increasing: the target j + 0.5 is crossed in segment j only
    if spec["targets"] == "every-segment":
        segs = np.arange(n - 1)
    else:
        near = set()
        k = 2
        while k < n:
            near.update(j for j in (k - 2, k - 1, k, k + 1) if 0 <= j < n - 1)
            k *= 2
        for blk in (1998, 4096, 65536 // 3, (2 ** 22) // 3, 1000, 10 ** 4, 10 ** 5, 10 ** 6):  # binary and decimal block sizes
            near.update(j for m in range(1, 4) for j in (m * blk - 1, m * blk) if 0 <= j < n - 1)
        segs = np.array(sorted(near))
        T = spec["t"]
        # keep T targets: the ones nearest to the largest powers of two first
        pref = [j for p2 in (2 ** 22, 2 ** 21, 2 ** 23, 10 ** 5, 10 ** 6, 2 * 10 ** 5, 2 ** 16, 2 ** 20, 10 ** 4, 2 ** 18, 2 ** 15)
                for j in (p2 - 1, p2, p2 - 2) if j in near]
        rest = [j for j in sorted(near, reverse=True) if j not in pref]
        segs = np.array(sorted((pref + rest)[:T]))
    targets = segs + 0.5
    ok, res = guarded(ctx, "long-call", case, invert_pl_function, x, y, targets)
    ctx.tick(len(targets))
    if ok:
        if len(res) != len(targets):
            ctx.fail("one-entry-per-target", case, observed=len(res), expected=len(targets))
        else:
            for j, sol in zip(segs.tolist(), res):
                sol = np.asarray(sol, dtype=float).reshape(-1)
                want = (x[j] + x[j + 1]) / 2
                ctx.nontrivial()
                if sol.size != 1 or abs(sol[0] - want) > 1e-9 * max(1.0, abs(want)):
                    ctx.fail("strict-crossing-reported", dict(case, segment=j, t=j + 0.5), observed=sol[:3], expected=want)
                    break
    ctx.sample(dict(case, segments_tested=int(len(segs))))
    return None


def pl_values(x, y, s):
    """Values the interpolant can take at s (sample points within 1e-9 of s count as hit)."""
    tol = 1e-9 * max(1.0, abs(x[0]), abs(x[-1]))
    vals = [y[i] for i in range(len(x)) if abs(x[i] - s) <= tol]
    for i in range(len(x) - 1):
        if x[i] < s < x[i + 1]:
            la = (s - x[i]) / (x[i + 1] - x[i])
            vals.append(y[i] + la * (y[i + 1] - y[i]))
    return vals


def judge(ctx, case, x, y, t, sol, snippet=None):
    """The C17 oracle for one target."""
    sol = np.asarray(sol, dtype=float).reshape(-1).tolist()
    x = [float(v) for v in x]
    y = [float(v) for v in y]
    if len(sol) == 0:
        ctx.fail("at-least-one-point", case, observed=sol, expected="non-empty", snippet=snippet)
        return
    if any(b_ <= a_ for a_, b_ in zip(sol, sol[1:])):
        ctx.fail("strictly-increasing", case, observed=sol, expected="strictly increasing", snippet=snippet)
    tol_x = 1e-9 * (max(abs(x[0]), abs(x[-1])) or 1.0)  # relative to the magnitude of the sample points (tiny scales too)
    if any(not (x[0] - tol_x <= s <= x[-1] + tol_x) for s in sol):
        ctx.fail("inside-sampled-range", case, observed=sol, expected=[x[0], x[-1]], snippet=snippet)
        return
    lo, hi = min(y), max(y)
    tol = 1e-9 * max(1.0, hi - lo)
    if lo <= t <= hi:
        for s in sol:
            vals = pl_values(x, y, s)
            if not any(abs(v - t) <= tol for v in vals):
                ctx.fail("returned-point-solves-equation", dict(case, point=s), observed=vals, expected=t, snippet=snippet)
        for i in range(len(x) - 1):
            if (y[i] < t < y[i + 1]) or (y[i] > t > y[i + 1]):
                # closed segment: a crossing within rounding of an end point is reported at that end point
                if not any(x[i] - tol_x <= s <= x[i + 1] + tol_x for s in sol):
                    ctx.fail("strict-crossing-reported", dict(case, segment=i), observed=sol,
                             expected=f"a solution inside [{x[i]}, {x[i + 1]}]", snippet=snippet)
    else:
        if len(sol) != 1:
            ctx.fail("single-closest-point-when-unreachable", case, observed=sol, expected="one point", snippet=snippet)
        s = sol[0]
        best = min(abs(v - t) for v in y)
        vals = [y[i] for i in range(len(x)) if abs(x[i] - s) <= tol_x]
        if not vals or abs(min(abs(v - t) for v in vals) - best) > tol:
            ctx.fail("closest-sample-point-when-unreachable", case, observed={"point": s, "values_there": vals},
                     expected={"min_distance": best}, snippet=snippet)


def run(item, ctx, tier, seed):
    from score_analysis import Scores
    from score_analysis.utils import invert_pl_function

    b = bounds(tier)
    if item["kind"] == "long_curve":
        return _run_long_curve(item, ctx)
    if item["kind"] == "curves":
        cs = curves(b["max_len"])[item["part"]::item["parts"]]
        for x, y in cs:
            ctx.state()
            mono = all(a_ <= b_ for a_, b_ in zip(y, y[1:])) or all(a_ >= b_ for a_, b_ in zip(y, y[1:]))
            flat = any(a_ == b_ for a_, b_ in zip(y, y[1:]))
            case = {"x": x, "y": y}
            ok, res = guarded(ctx, "array-call", case, invert_pl_function, x, y, TARGETS)
            if ok:
                if not isinstance(res, list) or len(res) != len(TARGETS):
                    ctx.fail("one-entry-per-target", case, observed=type(res).__name__, expected=len(TARGETS))
                else:
                    for t, sol in zip(TARGETS, res):
                        ctx.tick()
                        if (not mono or flat) and min(y) <= t <= max(y):
                            ctx.nontrivial()
                        snip = ("from score_analysis.utils import invert_pl_function\n"
                                f"print(invert_pl_function({x!r}, {y!r}, {t!r}))\n")
                        judge(ctx, dict(case, t=t), x, y, t, sol, snip)
                        ctx.outcome((len(np.asarray(sol).reshape(-1)), min(y) <= t <= max(y)))
            xa_, ya_ = np.array(x), np.array(y)
            ok, res2 = guarded(ctx, "ndarray-call", case, invert_pl_function, xa_, ya_, np.array(TARGETS))
            ctx.tick()
            if ok:
                for r_ in res2:
                    if isinstance(r_, np.ndarray) and r_.flags.writeable:
                        r_ += 1000.0
                if not (np.array_equal(xa_, np.array(x)) and np.array_equal(ya_, np.array(y))):
                    ctx.fail("results-do-not-alias-inputs", case, observed=[xa_, ya_], expected=[x, y])
            # the same curve shape over integer arrays with values near the ends of small dtypes (differences of
            # neighbouring samples do not fit the dtype)
            for dt_, xm, ym, tg in INT_VARIANTS:
                xi, yi = [xm[XS.index(v)] for v in x], [ym[YS.index(v)] for v in y]
                c3 = {"x": xi, "y": yi, "dtype": np.dtype(dt_).name}
                for targets_ in (np.array(tg, dtype=float), np.array(tg, dtype=np.int64)):
                    ok, res3 = guarded(ctx, "int-call", c3, invert_pl_function, np.array(xi, dtype=dt_), np.array(yi, dtype=dt_), targets_)
                    if ok and isinstance(res3, list) and len(res3) == len(tg):
                        for t, sol in zip(tg, res3):
                            ctx.tick()
                            judge(ctx, dict(c3, t=t, target_dtype=targets_.dtype.name), [float(v) for v in xi], [float(v) for v in yi], float(t), sol)
                    elif ok:
                        ctx.fail("one-entry-per-target", c3, observed=type(res3).__name__, expected=len(tg))
            for t in TARGETS[::2]:
                ok, sol = guarded(ctx, "scalar-call", dict(case, t=t), invert_pl_function, np.array(x), np.array(y), t)
                ctx.tick()
                if ok:
                    if not isinstance(sol, np.ndarray):
                        ctx.fail("scalar-target-gives-bare-array", dict(case, t=t), observed=type(sol).__name__,
                                 expected="ndarray")
                    else:
                        judge(ctx, dict(case, t=t, scalar=True), x, y, t, sol)
        ctx.sample({"kind": "curves", "first": cs[0] if cs else None, "count": len(cs), "targets": TARGETS})
        return None
    # ------------------------------------------------------------------ Scores.threshold_at_metric
    blocks = [tuple(v) for v in item["blocks"]]
    for grid in ("irregular", "int", "unit", "tiny"):
        pos, neg, vals = ot.concretise(blocks, "irregular" if grid == "tiny" else grid, seed)
        if grid == "tiny":
            # likelihood-like scores: the whole data set lives on a 1e-18 scale (exact scaling by a power of two)
            pos, neg, vals = [v * 2.0 ** -60 for v in pos], [v * 2.0 ** -60 for v in neg], [v * 2.0 ** -60 for v in vals]
        if grid == "unit":
            # scores in [0,1] whose largest value is 1.0 exactly: whether an evenly spaced grid of k points
            # ends exactly on the largest score depends on k
            m_ = len(vals)
            if m_ < 2:
                continue
            mp = {v: (i / (m_ - 1)) for i, v in enumerate(vals)}
            pos, neg, vals = [mp[v] for v in pos], [mp[v] for v in neg], [mp[v] for v in vals]
        distinct = len(vals)
        for cfg in ot.CFGS[:2] if grid in ("int", "tiny") else ot.CFGS:
            sc, ec = cfg
            s = Scores(pos[::-1], neg[::-1], score_class=sc, equal_class=ec)
            ctx.state()
            metrics = [m for m in NAMED]
            callables = {"fnr+fpr": lambda o, t: np.nan_to_num(o.fnr(t)) + np.nan_to_num(o.fpr(t)),
                         "|fnr-fpr|": lambda o, t: np.abs(np.nan_to_num(o.fnr(t)) - np.nan_to_num(o.fpr(t)))}
            for mname in metrics + list(callables):
                if mname in ("fnr", "tpr") and not pos:
                    continue
                if mname in ("fpr", "tnr") and not neg:
                    continue
                if not pos and not neg and mname in ("topr", "tonr"):
                    continue
                metric = callables.get(mname, mname)
                for pt in (b["points"] if grid != "unit" else (b["unit_points"] if mname in ("fnr", "fpr", "|fnr-fpr|") else [])):
                    case = {"pos": pos, "neg": neg, "cfg": cfg, "metric": mname, "points": pt}
                    allsc = sorted(pos + neg)
                    if pt == "None":
                        points, expect_err = None, len(allsc) < 2
                        xs = [float(v) for v in allsc]
                    elif pt == "array":
                        if not vals:
                            continue
                        u_ = 2.0 ** -60 if grid == "tiny" else 1.0
                        xs = [float(vals[0]) - 1.0 * u_, float(vals[0]), float(vals[-1]) + 0.5 * u_, float(vals[-1]) + 2.0 * u_]
                        xs = sorted(set(xs))
                        points, expect_err = np.array(xs), False
                    else:
                        points, expect_err = int(pt), distinct < 2
                        if not expect_err:
                            lo, hi = float(vals[0]), float(vals[-1])
                            xs = np.linspace(lo, hi, pt, endpoint=True).tolist()
                    targets = [-0.5, 0.0, 0.25, 1.0 / 3.0, 0.5, 0.75, 1.0, 1.5]
                    points_before = None if not isinstance(points, np.ndarray) else points.copy()
                    try:
                        res = s.threshold_at_metric(targets, metric, points)
                        err = None
                    except ValueError as e:
                        err, res = e, None
                    except Exception as e:  # noqa
                        ctx.fail("unexpected-exception:threshold_at_metric", case, observed=repr(e), expected="no exception")
                        continue
                    ctx.tick()
                    if expect_err:
                        if err is None:
                            ctx.fail("fewer-than-two-distinct-scores-raise", case, observed="no exception", expected="ValueError")
                        continue
                    if err is not None:
                        ctx.fail("fewer-than-two-distinct-scores-raise", case, observed=repr(err), expected="no exception")
                        continue
                    # the documented sampling points, metric evaluated by the same object
                    xa = np.array(xs, dtype=float)
                    if callable(metric):
                        ya = np.asarray(metric(s, xa), dtype=float)
                    else:
                        ya = np.asarray(getattr(s, metric)(xa), dtype=float)
                    if len(res) != len(targets):
                        ctx.fail("one-entry-per-target", case, observed=len(res), expected=len(targets))
                        continue
                    if points_before is not None:
                        # the caller post-processes the returned thresholds in place; its points array must not move
                        saved = [np.array(r_, copy=True) if isinstance(r_, np.ndarray) else r_ for r_ in res]
                        for r_ in res:
                            if isinstance(r_, np.ndarray) and r_.flags.writeable:
                                r_ += 1000.0
                        if not np.array_equal(points, points_before):
                            ctx.fail("results-do-not-alias-supplied-points", case, observed=points, expected=points_before)
                        res = saved  # (restoring by subtraction would round tiny values away)
                    for t, sol in zip(targets, res):
                        ctx.tick()
                        if min(ya) <= t <= max(ya):
                            ctx.nontrivial()
                        snip = ("from score_analysis import Scores\n"
                                f"s = Scores({pos!r}, {neg!r}, score_class={sc!r}, equal_class={ec!r})\n"
                                f"print(s.threshold_at_metric({t!r}, {mname!r}, {pt if pt != 'array' else xs!r}))\n")
                        judge(ctx, dict(case, t=t, sample_x=xs, sample_y=ya.tolist()), xs, ya.tolist(), t, sol,
                              snip if not callable(metric) else None)
                        ctx.outcome((mname, pt, len(np.asarray(sol).reshape(-1))))
    # ---- an object whose scores are replaced after a query (same length, same end points, other interior values)
    pos, neg, vals = ot.concretise(blocks, "irregular", seed)
    if len(pos) >= 3 and neg and min(pos) < max(pos):
        for cfg in ot.CFGS[:2]:
            for pt in ("None", 3):
                o = Scores(pos[::-1], neg[::-1], score_class=cfg[0], equal_class=cfg[1])
                points = None if pt == "None" else pt
                targets = [0.25, 0.5, 0.75]
                case = {"pos": pos, "neg": neg, "cfg": cfg, "points": pt, "history": "query; pos replaced (same length and end points); query"}
                ok, _ = guarded(ctx, "threshold_at_metric", case, lambda: o.threshold_at_metric(targets, "tpr", points))
                sp = sorted(pos)
                newpos = [sp[0]] + [(sp[0] + v) / 2 + (sp[-1] - sp[0]) / 16 for v in sp[1:-1]] + [sp[-1]]
                o.pos = np.array(sorted(newpos))
                fresh = Scores(newpos, neg[::-1], score_class=cfg[0], equal_class=cfg[1])
                for metric in ("tpr", "fnr", "topr"):
                    ok1, r1 = guarded(ctx, "threshold_at_metric", dict(case, metric=metric), lambda: o.threshold_at_metric(targets, metric, points))
                    ok2, r2 = guarded(ctx, "threshold_at_metric", dict(case, metric=metric), lambda: fresh.threshold_at_metric(targets, metric, points))
                    ctx.tick()
                    ctx.state()
                    if ok1 and ok2 and not all(np.array_equal(np.asarray(a_, dtype=float), np.asarray(b_, dtype=float)) for a_, b_ in zip(r1, r2)):
                        ctx.fail("threshold-search-follows-the-current-scores", dict(case, metric=metric), observed=[np.asarray(a_).tolist() for a_ in r1],
                                 expected=[np.asarray(b_).tolist() for b_ in r2])
    ctx.sample({"kind": "scores", "blocks": item["blocks"], "metrics": NAMED + ["fnr+fpr", "|fnr-fpr|"],
                "points": b["points"]})
    return None

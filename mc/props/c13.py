"""C13 - bootstrap confidence limits follow the documented quantile/BC/BCa formulas."""

from __future__ import annotations

import itertools
import math
import random

import numpy as np

from mc import refs
from mc.harness import guarded

ID = "C13"
TITLE = "Bootstrap confidence limits follow the documented quantile/BC/BCa formulas"
ENGINE = "array-enumerator"
RULE = (
    "state = one multiset of replicates over the value alphabet (incl. NaN) with one estimate; transition = one "
    "utils.bootstrap_ci call (method x alpha, or a stacked / permuted / NaN-padded / affinely mapped variant) "
    "compared with the plain-Python formula or with the base call; non-trivial = at least two distinct finite "
    "replicate values and the estimate not beyond all replicates (0 < p0 < 1, bias correction active); "
    "distinct by construction"
)
ASSUMPTIONS = [
    "replicate alphabet {0,1,2,5,NaN} (+{-3,1000} thorough), N<=5 (7), estimates {-1,0,.5,1,2,3,5,6}, "
    "alpha {.01,.05,.1,.5,.9}",
    "normal cdf/ppf reference from statistics.NormalDist; limits compared to 1e-9 of the replicate range",
    "BCa comparison skipped (and counted) when |1 - a(z0+z_alpha)| < 1e-6 (level ill-conditioned at the pole); "
    "BCa ordering/nesting only while |a(z0+z_alpha)| < 1 as the property states",
]
THETA_HATS = [-1.0, 0.0, 0.5, 1.0, 2.0, 3.0, 5.0, 6.0]
ALPHAS = [0.01, 0.05, 0.1, 0.5, 0.9]
METHODS = ["quantile", "bc", "bca"]
# the last two: a large exact shift (spread << magnitude) and a tiny exact scale (absolute tolerances bite)
AFFINE = [(2.0, -3.0), (0.5, 10.0), (1.0, 1048576.0), (2.0 ** -30, 0.0)]
NAN = float("nan")
SCALES = [1.0, 2.0 ** -30, 1024.0, 2.0 ** -12]  # per-component scales of one stacked call
SCALES_FAR = [2.0 ** -200, 2.0 ** 200, 1.0]  # hundreds of binades apart, each far inside the range of float64


def bounds(tier):
    if tier == "quick":
        return {"alphabet": [0.0, 1.0, 2.0, 5.0, "nan"], "max_replicates": 5, "theta_hat": THETA_HATS, "alpha": ALPHAS,
                "metric_shapes": [[], [2], [2, 3]], "alpha_shapes": [[], [3], [2, 2]]}
    return {"alphabet": [0.0, 1.0, 2.0, 5.0, "nan", -3.0, 1000.0], "max_replicates": 7, "theta_hat": THETA_HATS,
            "alpha": ALPHAS, "metric_shapes": [[], [2], [2, 3], [1], [3, 1, 2]], "alpha_shapes": [[], [3], [2, 2], [1]]}


def _alphabet(b):
    return [NAN if v == "nan" else v for v in b["alphabet"]]


ONE_UP, ONE_DOWN = math.nextafter(1.0, 2.0), math.nextafter(1.0, 0.0)
# replicates within one ulp of the estimate: "theta <= theta_hat" is an exact comparison in the documented formula
ULP_ALPHABET = [ONE_DOWN, 1.0, ONE_UP, 2.0, 0.39999999999999997, 0.4]
ULP_THETA_HATS = [1.0, ONE_UP, ONE_DOWN, 0.39999999999999997, 0.4]


def multisets(b, alphabet=None):
    al = _alphabet(b) if alphabet is None else alphabet
    out = []
    for n in range(1, b["max_replicates"] + 1):
        for combo in itertools.combinations_with_replacement(range(len(al)), n):
            vals = [al[i] for i in combo]
            if all(math.isnan(v) for v in vals):
                continue
            out.append(vals)
    return out


def work(tier, seed):
    b = bounds(tier)
    ms = multisets(b)
    n = 64
    items = [{"kind": "sets", "part": i, "parts": n} for i in range(n)]
    items += [{"kind": "stacked", "part": i, "parts": 8} for i in range(8)]
    items += [{"kind": "sets", "alphabet": "ulp", "part": i, "parts": 16} for i in range(16)]
    items.append({"kind": "errors"})
    items.append({"kind": "pole"})
    items += [{"kind": "narrow_float_sets", "dtype": dt_} for dt_ in ("float32", "float16")]
    items += [{"kind": "near_cases", "which": k} for k in range(3)]
    items.append({"kind": "inf_sets"})
    for k in range(3):
        items.append({"kind": "alpha_sweep", "which": k, "n": 250 if tier == "quick" else 1500})
    return items


def _call(theta, theta_hat, alpha, method):
    from score_analysis.utils import bootstrap_ci

    return bootstrap_ci(np.asarray(theta, dtype=float), theta_hat, alpha, method=method)


def _pole_ok(theta, th, alpha):
    """|a (z0 + z_alpha)| < 1 on both tails (where BCa ordering/nesting is claimed)."""
    fin = [t for t in theta if not math.isnan(t)]
    n = len(fin)
    p0 = sum(1 for t in fin if t <= th) / n
    if p0 <= 0 or p0 >= 1:
        return True
    z0 = refs.ND.inv_cdf(p0)
    d = [t - th for t in fin]
    den = 6 * sum(x * x for x in d) ** 1.5
    a = sum(x**3 for x in d) / den if den else 0.0
    return all(abs(a * (z0 + refs.ND.inv_cdf(q))) < 1 for q in (alpha / 2, 1 - alpha / 2))


def run(item, ctx, tier, seed):
    b = bounds(tier)
    if item["kind"] == "errors":
        for m in ("bc", "bca"):
            ctx.state()
            ctx.tick()
            try:
                _call([0.0, 1.0], None, 0.05, m)
                ctx.fail("theta-hat-required", {"method": m}, observed="no exception", expected="ValueError")
            except ValueError:
                pass
            except Exception as e:
                ctx.fail("theta-hat-required", {"method": m}, observed=repr(e), expected="ValueError")
        ctx.tick()
        try:
            _call([0.0, 1.0], 0.0, 0.05, "nope")
            ctx.fail("unknown-method", {}, observed="no exception", expected="ValueError")
        except ValueError:
            pass
        return None
    if item["kind"] == "pole":
        return _run_pole(ctx)
    if item["kind"] == "alpha_sweep":
        return _run_alpha_sweep(item, ctx)
    if item["kind"] == "narrow_float_sets":
        return _run_narrow_float_sets(item, ctx)
    if item["kind"] == "near_cases":
        return _run_near_cases(item, ctx)
    if item["kind"] == "inf_sets":
        return _run_inf_sets(ctx)
    ulp_item = item.get("alphabet") == "ulp"
    ms = multisets(b, ULP_ALPHABET) if ulp_item else multisets(b)
    theta_hats = ULP_THETA_HATS if ulp_item else b["theta_hat"]
    if item["kind"] == "sets":
        mine = ms[item["part"]::item["parts"]]
        skipped = 0
        for theta in mine:
            fin = sorted(t for t in theta if not math.isnan(t))
            rng_ = max(fin[-1] - fin[0], 1.0)
            tol = 1e-9 * rng_
            for th in theta_hats:
                ctx.state()
                p0 = sum(1 for t in fin if t <= th) / len(fin)
                nontriv = len(set(fin)) >= 2 and 0 < p0 < 1
                res = {}
                for method in METHODS:
                    prev = None
                    for alpha in b["alpha"]:
                        case = {"theta": theta, "theta_hat": th, "alpha": alpha, "method": method}
                        ok, ci = guarded(ctx, "call", case, _call, theta, th, alpha, method)
                        ctx.tick()
                        if nontriv:
                            ctx.nontrivial()
                        if not ok:
                            continue
                        ci = np.asarray(ci, dtype=float)
                        if ci.shape != (2,):
                            ctx.fail("shape", case, observed=list(ci.shape), expected=[2])
                            continue
                        lo, hi = float(ci[0]), float(ci[1])
                        res[(method, alpha)] = (lo, hi)
                        ctx.outcome((method, round(lo, 9), round(hi, 9)))
                        want = refs.ref_bootstrap_ci(theta, th, alpha, method)
                        snippet = ("import numpy as np\nfrom score_analysis.utils import bootstrap_ci\n"
                                   f"print(bootstrap_ci(np.array({theta!r}, dtype=float), {th!r}, {alpha!r}, "
                                   f"method={method!r}))\n").replace("nan", "np.nan")
                        if want is None:
                            skipped += 1
                        elif not (abs(lo - want[0]) <= tol and abs(hi - want[1]) <= tol):
                            ctx.fail("limits-equal-documented-formula", case, observed=[lo, hi], expected=list(want),
                                     snippet=snippet)
                        if math.isnan(lo) or math.isnan(hi):
                            ctx.fail("limits-finite", case, observed=[lo, hi], expected="finite", snippet=snippet)
                            continue
                        if not (fin[0] - tol <= lo and hi <= fin[-1] + tol):
                            ctx.fail("limits-within-replicate-range", case, observed=[lo, hi], expected=[fin[0], fin[-1]],
                                     snippet=snippet)
                        derived_ok = method != "bca" or _pole_ok(theta, th, alpha)
                        if derived_ok and not lo <= hi + tol:
                            ctx.fail("limits-ordered", case, observed=[lo, hi], expected="lower <= upper", snippet=snippet)
                        if prev is not None and derived_ok and prev[2]:
                            if not (prev[0] <= lo + tol and hi <= prev[1] + tol):
                                ctx.fail("nested-in-alpha", dict(case, wider_alpha=prev[3]), observed=[lo, hi],
                                         expected=[prev[0], prev[1]], snippet=snippet)
                        prev = (lo, hi, derived_ok, alpha)
                # ---- invariances on a sub-menu of alphas
                for method in METHODS:
                    for alpha in (0.05, 0.5):
                        if (method, alpha) not in res:
                            continue
                        base = res[(method, alpha)]
                        case = {"theta": theta, "theta_hat": th, "alpha": alpha, "method": method}
                        variants = [("permuted", theta[::-1], th, 1.0, 0.0),
                                    ("rotated", theta[1:] + theta[:1], th, 1.0, 0.0),
                                    ("nan-appended", list(theta) + [NAN, NAN], th, 1.0, 0.0),
                                    ("nan-prepended", [NAN] + list(theta), th, 1.0, 0.0)]
                        if any(math.isnan(t) for t in theta):
                            variants.append(("nan-removed", [t for t in theta if not math.isnan(t)], th, 1.0, 0.0))
                        # values one ulp apart survive only maps that are exact in floating point: powers of two, no shift
                        for a_, b_ in ([(2.0, 0.0), (2.0 ** -30, 0.0)] if ulp_item else AFFINE):
                            variants.append((f"affine{a_},{b_}", [a_ * t + b_ for t in theta], a_ * th + b_, a_, b_))
                        # the caller passes the same ndarray again: it must be unchanged and give the same limits
                        arr = np.array(theta[::-1], dtype=float)  # unsorted, NaNs (if any) first
                        keep = arr.copy()
                        for rep in range(2):
                            ok, ci = guarded(ctx, "reused-array", case, lambda: __import__("score_analysis").utils.bootstrap_ci(
                                arr, th, alpha, method=method))
                            ctx.tick()
                            if ok and not np.allclose(np.asarray(ci, dtype=float), base, rtol=0, atol=tol, equal_nan=True):
                                ctx.fail("same-array-same-limits", dict(case, call=rep + 1), observed=ci, expected=list(base))
                            if not np.array_equal(arr, keep, equal_nan=True):
                                ctx.fail("replicate-array-unchanged", dict(case, call=rep + 1), observed=arr, expected=keep)
                                break
                        # alpha passed as the caller's own (0-d / 1-element) float64 array, twice
                        for aarr in (np.array(alpha), np.array([alpha])):
                            akeep = aarr.copy()
                            for rep in range(2):
                                if aarr.ndim and method != "quantile":
                                    break
                                ok, ci = guarded(ctx, "alpha-array", case, lambda: __import__("score_analysis").utils.bootstrap_ci(
                                    np.array(theta, dtype=float), th, aarr, method=method))
                                ctx.tick()
                                if ok and not np.allclose(np.asarray(ci, dtype=float).reshape(-1), base, rtol=0, atol=tol, equal_nan=True):
                                    ctx.fail("alpha-array-same-limits", dict(case, call=rep + 1, alpha_ndim=aarr.ndim), observed=ci, expected=list(base))
                                if not np.array_equal(aarr, akeep):
                                    ctx.fail("alpha-array-unchanged", dict(case, call=rep + 1), observed=aarr, expected=akeep)
                                    break
                        # the method name as an equal string built at run time / as a NumPy string
                        if alpha == 0.05:
                            from mc import ordertypes as ot_
                            for kname, mval in ot_.string_kinds(method)[1:]:
                                ok, ci = guarded(ctx, "method-kind", dict(case, method_passed_as=kname), _call, theta, th, alpha, mval)
                                ctx.tick()
                                if ok and not np.allclose(np.asarray(ci, dtype=float), base, rtol=0, atol=tol, equal_nan=True):
                                    ctx.fail("method-name-compared-by-value", dict(case, method_passed_as=kname), observed=ci, expected=list(base))
                        # integer-valued replicates stored in an integer array
                        if all(not math.isnan(t) and float(t).is_integer() for t in theta):
                            ok, ci = guarded(ctx, "int-dtype", case, lambda: __import__("score_analysis").utils.bootstrap_ci(
                                np.array(theta, dtype=np.int64), th, alpha, method=method))
                            ctx.tick()
                            if ok and not np.allclose(np.asarray(ci, dtype=float), base, rtol=0, atol=tol, equal_nan=True):
                                ctx.fail("integer-replicates-same-limits", case, observed=ci, expected=list(base))
                        for name, th2, hat2, a_, b_ in variants:
                            ok, ci = guarded(ctx, "variant-" + name, case, _call, th2, hat2, alpha, method)
                            ctx.tick()
                            if not ok:
                                continue
                            want = (a_ * base[0] + b_, a_ * base[1] + b_)
                            if not np.allclose(np.asarray(ci, dtype=float), want, rtol=0,
                                               atol=tol * max(a_, 1.0) + 1e-15 * abs(b_), equal_nan=True):
                                clause = ("affine-equivariant" if name.startswith("affine") else
                                          "nan-replicates-ignored" if name.startswith("nan") else "order-of-replicates-irrelevant")
                                ctx.fail(clause, dict(case, variant=name), observed=ci, expected=list(want))
        ctx.extra["cov_bca_pole_skipped"] = skipped
        ctx.sample({"kind": "sets", "first": mine[0] if mine else None, "count": len(mine), "theta_hat": b["theta_hat"],
                    "alpha": b["alpha"], "methods": METHODS})
        return None
    # ---------------------------------------------------------------- stacked shapes
    mine = ms[item["part"]::item["parts"]]
    for N in range(1, b["max_replicates"] + 1):
        cols = [t for t in mine if len(t) == N]
        if not cols:
            continue
        for yshape in [tuple(s) for s in b["metric_shapes"]]:
            size = int(np.prod(yshape)) if yshape else 1
            pick = [cols[(k * 7 + 1) % len(cols)] for k in range(size)]
            hats = [THETA_HATS[(k * 3 + N) % len(THETA_HATS)] for k in range(size)]
            theta = np.array(pick, dtype=float).T.reshape((N,) + yshape)
            hat = np.array(hats, dtype=float).reshape(yshape)
            ctx.state()
            for method in METHODS:
                ashapes = [tuple(s) for s in b["alpha_shapes"]] if method == "quantile" else [()]
                for ashape in ashapes:
                    asz = int(np.prod(ashape)) if ashape else 1
                    alphas = [ALPHAS[(k * 2 + 1) % len(ALPHAS)] for k in range(asz)]
                    alpha = np.array(alphas).reshape(ashape) if ashape else alphas[0]
                    case = {"N": N, "metric_shape": list(yshape), "alpha_shape": list(ashape), "method": method,
                            "columns": pick[:3]}
                    ok, ci = guarded(ctx, "stacked-call", case, _call, theta, hat if yshape else hats[0], alpha, method)
                    ctx.tick()
                    if not ok:
                        continue
                    ci = np.asarray(ci, dtype=float)
                    want_shape = yshape + ashape + (2,)
                    if ci.shape != want_shape:
                        ctx.fail("shape-is-metric+alpha+2", case, observed=list(ci.shape), expected=list(want_shape))
                        continue
                    flat = ci.reshape((size, asz, 2))
                    for k in range(size):
                        for j in range(asz):
                            single = np.asarray(_call(pick[k], hats[k], alphas[j], method), dtype=float)
                            if not np.allclose(flat[k, j], single, rtol=0, atol=1e-12, equal_nan=True):
                                ctx.fail("components-independent", dict(case, component=k, alpha=alphas[j]),
                                         observed=flat[k, j], expected=single)
                # ---- the same values in other memory layouts (estimate and/or replicates Fortran-ordered, strided)
                if len(yshape) >= 1 and size > 1:
                    case = {"N": N, "metric_shape": list(yshape), "method": method, "columns": pick[:3]}
                    ok, base = guarded(ctx, "stacked-call", case, _call, theta, hat, 0.1, method)
                    if ok:
                        wide = np.zeros(yshape[:-1] + (2 * yshape[-1],))
                        wide[..., ::2] = hat
                        layouts = [("estimate-F", theta, np.asfortranarray(hat)), ("both-F", np.asfortranarray(theta), np.asfortranarray(hat)),
                                   ("estimate-strided", theta, wide[..., ::2]), ("replicates-F", np.asfortranarray(theta), hat)]
                        for lname, th_l, hat_l in layouts:
                            ok, ci = guarded(ctx, "layout-call", dict(case, layout=lname), lambda: __import__("score_analysis").utils.bootstrap_ci(
                                th_l, hat_l, 0.1, method=method))
                            ctx.tick()
                            ctx.nontrivial()
                            if ok and not np.array_equal(np.asarray(ci), np.asarray(base), equal_nan=True):
                                ctx.fail("memory-layout-irrelevant", dict(case, layout=lname), observed=ci, expected=base)
                # ---- components on very different scales (exact powers of two): each still equals its stand-alone call
                for SC_ in ((SCALES, SCALES_FAR) if size > 1 else ()):
                    scales = [SC_[k % len(SC_)] for k in range(size)]
                    theta_s = (np.array(pick, dtype=float) * np.array(scales)[:, None]).T.reshape((N,) + yshape)
                    hat_s = (np.array(hats, dtype=float) * np.array(scales)).reshape(yshape)
                    case = {"N": N, "metric_shape": list(yshape), "method": method, "columns": pick[:3], "scales": scales[:3]}
                    ok, ci = guarded(ctx, "scaled-call", case, _call, theta_s, hat_s, 0.1, method)
                    ctx.tick()
                    if ok:
                        flat = np.asarray(ci, dtype=float).reshape((size, 2))
                        for k in range(size):
                            col = [v * scales[k] for v in pick[k]]
                            single = np.asarray(_call(col, hats[k] * scales[k], 0.1, method), dtype=float)
                            fin_ = [v for v in col if not math.isnan(v)]
                            if len(set(fin_)) >= 2:
                                ctx.nontrivial()
                            if not np.allclose(flat[k], single, rtol=0, atol=1e-12 * scales[k], equal_nan=True):
                                ctx.fail("components-independent", dict(case, component=k, scale=scales[k], alpha=0.1),
                                         observed=flat[k], expected=single)
    ctx.sample({"kind": "stacked", "metric_shapes": b["metric_shapes"], "alpha_shapes": b["alpha_shapes"]})
    return None


def _run_inf_sets(ctx):
    """Replicates of +-inf (a ratio metric on a sample without the denominator's events) are replicates like any other:
    they count in 'the fraction of replicates not exceeding the estimate'. A limit is judged wherever the documented
    formula gives a finite value (interpolation between a finite value and inf is not pinned)."""
    inf = math.inf
    sets = [[1.0, 2.0, 3.0, 4.0, 5.0, 6.0, 7.0, 8.0, inf, inf], [-inf, 1.0, 2.0, 3.0, 4.0, 5.0, 6.0, 7.0, 8.0, 9.0, 10.0, 11.0],
            [-inf, -inf, 0.0, 1.0, 1.0, 2.0, 5.0, 5.0, 7.0, inf], [1.0, 2.0, 3.0, inf], [0.0, 1.0, 2.0, 5.0, NAN, inf, inf, inf, 3.0, 4.0, 4.5, 6.0]]
    for theta in sets:
        fin = [t for t in theta if math.isfinite(t)]
        rng_ = max(fin) - min(fin)
        for th in (0.5, 2.5, 4.5, 7.5):
            for method in ("quantile", "bc"):
                for alpha in (0.05, 0.2, 0.5, 0.9):
                    case = {"kind": "inf_sets", "theta": [str(t) for t in theta], "theta_hat": th, "method": method, "alpha": alpha}
                    ctx.state()
                    ctx.nontrivial()
                    ok, ci = guarded(ctx, "call", case, _call, theta, th, alpha, method)
                    ctx.tick()
                    if not ok:
                        continue
                    ci = np.asarray(ci, dtype=float)
                    want = refs.ref_bootstrap_ci(theta, th, alpha, method)
                    if want is None:
                        continue
                    for side in (0, 1):
                        if math.isfinite(want[side]) and not abs(ci[side] - want[side]) <= 1e-9 * rng_:
                            ctx.fail("limits-equal-documented-formula", dict(case, side=["lower", "upper"][side]), observed=float(ci[side]), expected=want[side])
                            break
    ctx.sample({"kind": "inf_sets", "sets": len(sets)})
    return None


def _run_near_cases(item, ctx):
    """
    Inputs that are *nearly* something special, judged to 1e-12 of the replicate range (the reference is good to 1e-15):
      0  replicates almost symmetric about the estimate: acceleration 1e-13 .. 1e-7 instead of exactly 0;
      1  several components in one call that are almost copies of each other (levels equal to 1e-5 .. 1e-9, not equal);
      2  the estimate almost at a replicate (relative distance 1e-13 .. 1e-9): 'theta <= theta_hat' still decides.
    """
    k = item["which"]
    cases = []
    if k == 0:
        base = [-9.0, -4.0, -2.0, -1.0, -0.5, 0.0, 0.5, 1.0, 2.0, 4.0, 9.0] * 3
        for eps_ in (1e-3, 1e-5, 1e-6, 1e-7, 3e-8):
            for shift_at in (0, 5, len(base) - 1):
                th = list(base)
                th[shift_at] += eps_
                cases.append((th, 0.0, None))
    elif k == 1:
        rnd = random.Random(12345)
        col = [math.exp(rnd.gauss(0.0, 1.0)) for _ in range(400)]
        for rel in (3e-5, 1e-6, 1e-8):
            col2 = list(col)
            for j in (3, 77, 211):
                col2[j] *= 1 + rel
            col3 = [v * (1 + rel * 0.5) if i % 50 == 0 else v for i, v in enumerate(col)]
            cases.append((None, None, [col, col2, col3]))
    else:
        col = [0.1 * i for i in range(1, 40)]
        for rel in (1e-9, 1e-11, 1e-13):
            for j in (5, 20):
                cases.append((col, col[j] * (1 + rel), None))
                cases.append((col, col[j] * (1 - rel), None))
    for theta, th, stacked in cases:
        for method in ("bc", "bca"):
            for alpha in (0.01, 0.05, 0.5):
                ctx.state()
                ctx.nontrivial()
                if stacked is None:
                    rng_ = max(theta) - min(theta)
                    case = {"kind": "near_cases", "which": k, "n": len(theta), "theta_hat": th, "method": method, "alpha": alpha,
                            "theta_head": theta[:6]}
                    ok, ci = guarded(ctx, "call", case, _call, theta, th, alpha, method)
                    ctx.tick()
                    want = refs.ref_bootstrap_ci(theta, th, alpha, method)
                    if ok and want is not None and not np.allclose(np.asarray(ci, dtype=float), want, rtol=0, atol=1e-12 * rng_):
                        ctx.fail("limits-equal-documented-formula", case, observed=ci, expected=list(want))
                else:
                    arr = np.array(stacked, dtype=float).T  # (N, components)
                    hats = [float(np.median(c)) * 1.1 for c in stacked]
                    case = {"kind": "near_cases", "which": k, "n": arr.shape[0], "components": arr.shape[1], "method": method, "alpha": alpha}
                    ok, ci = guarded(ctx, "stacked-call", case, _call, arr, np.array(hats), alpha, method)
                    ctx.tick()
                    if not ok:
                        continue
                    ci = np.asarray(ci, dtype=float)
                    for c_ in range(arr.shape[1]):
                        want = refs.ref_bootstrap_ci(stacked[c_], hats[c_], alpha, method)
                        rng_ = max(stacked[c_]) - min(stacked[c_])
                        if want is not None and not np.allclose(ci[c_], want, rtol=0, atol=1e-12 * rng_):
                            ctx.fail("components-independent", dict(case, component=c_), observed=ci[c_], expected=list(want))
                            break
    ctx.sample({"kind": "near_cases", "which": k, "cases": len(cases)})
    return None


def _run_narrow_float_sets(item, ctx):
    """Replicates stored in float32 / float16 with a float64 estimate that is not a value of that type and lies
    between a replicate and its own rounding: 'theta <= theta_hat' is a comparison of the numbers themselves."""
    dt = np.dtype(item["dtype"])
    dec = [0.1, 0.3, 0.7, 0.9]
    al = [float(np.asarray(v, dtype=dt)) for v in dec]  # the exact values the narrow type stores
    hats = dec + [al[1], 0.5]
    for n in range(1, 6):
        for combo in itertools.combinations_with_replacement(range(len(al)), n):
            theta = [al[i] for i in combo]
            arr = np.array(theta, dtype=dt)
            rng_ = max(max(theta) - min(theta), 1.0)
            for th in hats:
                ctx.state()
                for method in ("bc", "bca"):
                    for alpha in (0.1, 0.5):
                        case = {"kind": "narrow_float_sets", "dtype": dt.name, "theta": theta, "theta_hat": th, "alpha": alpha, "method": method}
                        ok, ci = guarded(ctx, "call", case, lambda: __import__("score_analysis").utils.bootstrap_ci(arr, th, alpha, method=method))
                        ctx.tick()
                        if any(min(t, float(np.asarray(th, dtype=dt))) < th < max(t, float(np.asarray(th, dtype=dt))) or t == float(np.asarray(th, dtype=dt)) != th
                               for t in theta):
                            ctx.nontrivial()
                        if not ok:
                            continue
                        want = refs.ref_bootstrap_ci(theta, th, alpha, method)
                        if want is not None and not np.allclose(np.asarray(ci, dtype=float), want, rtol=0, atol=8 * float(np.finfo(dt).eps) * rng_):
                            # (the quantile interpolation itself is carried out in the narrow type: judged to its resolution)
                            ctx.fail("limits-equal-documented-formula", case, observed=ci, expected=list(want))
    ctx.sample({"kind": "narrow_float_sets", "dtype": dt.name, "alphabet": al, "estimates": hats})
    return None


def _run_alpha_sweep(item, ctx):
    """One process, hundreds of pairwise distinct alphas (customary levels, values rounding to them, a ladder),
    then the first ones again: each answer against the documented formula (bounded caches, rounded lookup keys)."""
    k, n = item["which"], item["n"]
    theta = [[0.0, 1.0, 2.0, 5.0, 5.0, 7.5, 9.0, 3.0, 1.0, 4.0, 6.0, 2.5], [0.3, 0.1, NAN, 0.7, 0.2, 0.9, 0.4],
             [float(i * i % 17) for i in range(40)]][k]
    th = [3.0, 0.35, 8.0][k]
    near = []
    for c in (0.001, 0.01, 0.05, 0.1, 0.2, 0.32, 0.5):
        near += [c, 1 - (1 - c), c * (1 + 6e-3), c * (1 - 4e-3), c + 3e-4, c * (1 + 1e-4), math.nextafter(c, 1.0)]
    ladder = [(j + 0.41 + 0.01 * k) / (n + 1) for j in range(n)]
    hist = list(dict.fromkeys(near + ladder))
    hist = hist + hist[:16]
    fin = [t for t in theta if not math.isnan(t)]
    tol = 1e-9 * (max(fin) - min(fin))
    ctx.state()
    for step, alpha in enumerate(hist):
        for method in METHODS:
            case = {"kind": "alpha_sweep", "theta": theta, "theta_hat": th, "alpha": alpha, "method": method, "step": step}
            ok, ci = guarded(ctx, "call", case, _call, theta, th, alpha, method)
            ctx.tick()
            ctx.nontrivial()
            if not ok:
                continue
            want = refs.ref_bootstrap_ci(theta, th, alpha, method)
            if want is not None and not np.allclose(np.asarray(ci, dtype=float), want, rtol=0, atol=tol):
                ctx.fail("limits-equal-documented-formula", case, observed=ci, expected=list(want))
                return None
    ctx.outcome(("alpha_sweep", k, len(hist)))
    ctx.sample({"kind": "alpha_sweep", "which": k, "history_length": len(hist)})
    return None


def _run_pole(ctx):
    """BCa beyond the pole of the acceleration term: the documented formula is claimed everywhere."""
    cases = []
    for n_bulk, outlier in ((19, 1000.0), (49, 1000.0), (9, 50.0), (199, 1e6)):
        theta = [0.0] * (n_bulk // 2) + [1.0] * (n_bulk - n_bulk // 2) + [outlier]
        for th in (0.5, outlier / 2, 1.0):
            for alpha in (1e-6, 1e-3, 0.01, 0.2):
                cases.append((theta, th, alpha))
    beyond = 0
    for theta, th, alpha in cases:
        case = {"theta": f"{len(theta) - 1} bulk values in {{0,1}} + outlier {theta[-1]}", "theta_hat": th, "alpha": alpha, "method": "bca"}
        ctx.state()
        ok, ci = guarded(ctx, "call", case, _call, theta, th, alpha, "bca")
        ctx.tick()
        if not ok:
            continue
        want = refs.ref_bootstrap_ci(theta, th, alpha, "bca")
        if not _pole_ok(theta, th, alpha):
            beyond += 1
            ctx.nontrivial()
        if want is None:
            continue
        rng_ = max(theta) - min(theta)
        if not np.allclose(np.asarray(ci, dtype=float), want, rtol=0, atol=1e-9 * rng_, equal_nan=True):
            ctx.fail("limits-equal-documented-formula", case, observed=ci, expected=list(want))
    ctx.extra["cov_bca_cases_beyond_the_pole"] = beyond
    ctx.sample({"kind": "pole", "cases": len(cases), "beyond_pole": beyond})
    return None

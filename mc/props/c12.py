"""C12 - group labels stay attached to their scores; groups partition the data."""

from __future__ import annotations

import itertools

import numpy as np

from mc import opgraph
from mc import ordertypes as ot
from mc import refs
from mc import rngtree
from mc.harness import HarnessError, guarded

ID = "C12"
TITLE = "Group labels stay attached to their scores; groups partition the data"
ENGINE = "order-type-explorer"
TECHNIQUE = ("exhaustive order-type x group-label-assignment enumeration, RNG answer-tree exploration of every "
             "sampling mode, and explicit-state BFS over the per-group cache, all on the real code")
RULE = (
    "state = (order type, assignment of group labels to samples, input permutation, cfg, explicit/implicit group "
    "names) for the deterministic clauses; one leaf of the RNG answer tree for the sampling clauses; one cache "
    "subset for the history clauses. transition = one API call compared with filtering the raw labelled input in "
    "plain Python. non-trivial = at least two groups present and some group lacks a class or shares a score value "
    "with another group; distinct by construction"
)
ASSUMPTIONS = [
    "labels from {a,b,c} (strings of different lengths: 'a','bb','c_3') and an int-label variant",
    "(P,Q)<=(2,2) with all 3-label assignments, (3,2)/(2,3) with all 2-label assignments (quick)",
    "sampling trees complete for sources with <= 4 scores; single_pass+by_group only when every group has both classes",
]
LABELS = ["a", "bb", "c_3"]
GROUP_METRICS = ["tpr", "fnr", "tnr", "fpr", "topr", "tonr", "tar", "frr", "trr", "far", "acceptance_rate",
                 "rejection_rate"]


def bounds(tier):
    if tier == "quick":
        return {"three_labels_max": [2, 2], "two_labels_max": [3, 2], "sampling_max_scores": 4,
                "history_objects": 3}
    return {"three_labels_max": [3, 2], "two_labels_max": [3, 3], "sampling_max_scores": 5, "history_objects": 6}


def work(tier, seed):
    b = bounds(tier)
    items = []
    P3, Q3 = b["three_labels_max"]
    P2, Q2 = b["two_labels_max"]
    seen = set()
    for (P, Q, nl) in ((P3, Q3, 3), (P2, Q2, 2), (Q2, P2, 2)):
        for bl in ot.order_types(P, Q):
            n = sum(a + c for a, c in bl)
            if n == 0 or (bl, nl) in seen:
                continue
            if nl == 2 and sum(a for a, _ in bl) <= P3 and sum(c for _, c in bl) <= Q3:
                continue  # covered with three labels
            seen.add((bl, nl))
            items.append({"kind": "det", "blocks": [list(x) for x in bl], "nlabels": nl})
    for bl in ot.order_types(2, 2, 1, 1) + ot.order_types(3, 1, 3, 1) + ot.order_types(1, 3, 1, 3):
        if sum(a + c for a, c in bl) <= b["sampling_max_scores"]:
            items.append({"kind": "sampling", "blocks": [list(x) for x in bl]})
    for k in range(b["history_objects"]):
        items.append({"kind": "history", "which": k})
    items.append({"kind": "large"})
    return items


def labelled(blocks, assign, grid, seed):
    """-> list of (score, is_pos, label) in block order."""
    vals = ot.grid(grid, len(blocks), seed)
    out, k = [], 0
    for v, (a, c) in zip(vals, blocks):
        for _ in range(a):
            out.append((float(v), True, assign[k]))
            k += 1
        for _ in range(c):
            out.append((float(v), False, assign[k]))
            k += 1
    return out, vals


def _pairs(scores, groups):
    return sorted(zip(map(float, scores), map(str, groups)))


def check_object(ctx, case, g, data, cfg, groups_expected, T):
    """Deterministic clauses on one GroupScores object against the raw labelled data."""
    sc, ec = cfg
    pos_pairs = sorted((s, str(l)) for s, p, l in data if p)
    neg_pairs = sorted((s, str(l)) for s, p, l in data if not p)
    if _pairs(g.pos, g.pos_groups) != pos_pairs or _pairs(g.neg, g.neg_groups) != neg_pairs:
        ctx.fail("labels-stay-attached", case, observed=[_pairs(g.pos, g.pos_groups), _pairs(g.neg, g.neg_groups)],
                 expected=[pos_pairs, neg_pairs])
    if np.any(np.diff(np.asarray(g.pos, dtype=float)) < 0) or np.any(np.diff(np.asarray(g.neg, dtype=float)) < 0):
        ctx.fail("scores-sorted", case, observed=[g.pos, g.neg], expected="ascending")
    if groups_expected is None:
        # swap(): the property pins labels and per-group content, not the explicit name list
        groups_expected = list(g.groups)
        present = sorted(set(str(l) for _, _, l in data))
        if not set(present) <= set(map(str, groups_expected)) or len(set(map(str, groups_expected))) != len(groups_expected):
            ctx.fail("group-names", case, observed=list(map(str, g.groups)), expected=f"contains {present}")
            return
    if [str(x) for x in g.groups] != [str(x) for x in groups_expected]:
        ctx.fail("group-names", case, observed=list(map(str, g.groups)), expected=list(map(str, groups_expected)))
        return
    T = list(T[1:]) + list(T[:1])  # the caller's thresholds are not sorted (one long cycle away from sorted)
    Tarr = np.array(T)
    ok, gcm = guarded(ctx, "group_cm", case, lambda: g.group_cm(Tarr).matrix)
    ok2, cm = guarded(ctx, "cm", case, lambda: g.cm(Tarr).matrix)
    ctx.tick(2)
    if not (ok and ok2):
        return
    if gcm.shape != (len(groups_expected), len(T), 2, 2):
        ctx.fail("group-cm-shape", case, observed=list(gcm.shape), expected=[len(groups_expected), len(T), 2, 2])
        return
    total = np.zeros((len(T), 2, 2), dtype=int)
    for gi, name in enumerate(groups_expected):
        fpos = [s for s, p, l in data if p and str(l) == str(name)]
        fneg = [s for s, p, l in data if not p and str(l) == str(name)]
        want = np.array([refs.ref_cm(fpos, fneg, t, sc, ec) for t in T])
        total += want
        if not np.array_equal(gcm[gi], want):
            k = int(np.argmax(np.any(gcm[gi] != want, axis=(1, 2))))
            ctx.fail("group-cm-equals-filtered-counting", dict(case, group=str(name), threshold=T[k]), observed=gcm[gi][k],
                     expected=want[k])
        ok, sub = guarded(ctx, "getitem", dict(case, group=str(name)), lambda: g[name])
        ctx.tick()
        if ok:
            if (sorted(map(float, sub.pos)) != sorted(fpos) or sorted(map(float, sub.neg)) != sorted(fneg)
                    or not (sub.score_class == sc and sub.equal_class == ec)
                    or list(map(float, sub.pos)) != sorted(map(float, sub.pos))
                    or list(map(float, sub.neg)) != sorted(map(float, sub.neg))):
                ctx.fail("getitem-yields-exactly-that-groups-scores", dict(case, group=str(name)),
                         observed=[sub.pos, sub.neg, str(sub.score_class), str(sub.equal_class)],
                         expected=[sorted(fpos), sorted(fneg), sc, ec])
    if not np.array_equal(gcm.sum(axis=0), cm) or not np.array_equal(total, cm):
        ctx.fail("group-cms-sum-to-overall-cm", case, observed=gcm.sum(axis=0), expected=cm)
    # the 12 group metrics and groupwise()
    from score_analysis.group_scores import groupwise

    for m in GROUP_METRICS:
        ok, v = guarded(ctx, "group_" + m, case, lambda: np.asarray(getattr(g, "group_" + m)(Tarr), dtype=float))
        ctx.tick()
        if not ok:
            continue
        want = np.stack([np.asarray(getattr(g[name], m)(Tarr), dtype=float) for name in groups_expected], axis=0)
        if v.shape != want.shape or not np.array_equal(v, want, equal_nan=True):
            ctx.fail("group-metric-equals-per-group-metric", dict(case, metric=m), observed=v, expected=want)
        if m in ("fnr", "tpr", "topr"):
            for spec in (m, lambda s_, threshold, m=m: getattr(s_, m)(threshold)):
                ok, w = guarded(ctx, "groupwise", dict(case, metric=m), lambda: np.asarray(groupwise(spec)(g, threshold=Tarr), dtype=float))
                ctx.tick()
                if ok and (w.shape != want.shape or not np.array_equal(w, want, equal_nan=True)):
                    ctx.fail("groupwise-equals-metric-group-by-group", dict(case, metric=m), observed=w, expected=want)
    for badname in ("qq", "A", -1):
        ctx.tick()
        try:
            g[badname]
            ctx.fail("unknown-group-raises", dict(case, group=badname), observed="no exception", expected="ValueError")
        except ValueError:
            pass
        except Exception as e:  # noqa
            ctx.fail("unknown-group-raises", dict(case, group=badname), observed=repr(e), expected="ValueError")


def run(item, ctx, tier, seed):
    from score_analysis import GroupScores

    if item["kind"] == "history":
        return _run_history(item, ctx)
    if item["kind"] == "large":
        return _run_large(item, ctx, seed)
    if item["kind"] == "sampling":
        return _run_sampling(item, ctx, seed)
    blocks = [tuple(x) for x in item["blocks"]]
    n = sum(a + c for a, c in blocks)
    labels = LABELS[: item["nlabels"]]
    for ai, assign in enumerate(itertools.product(labels, repeat=n)):
        present = sorted(set(assign))
        for variant in range(3 if ai % 4 == 0 else 1):
            cfg = ot.CFGS[(ai + variant) % 4]
            sc, ec = cfg
            data, vals = labelled(blocks, assign, "irregular", seed)
            intlab = variant == 2
            if intlab:
                mp = {"a": 3, "bb": 1, "c_3": 20}
                data = [(s, p, mp[l]) for s, p, l in data]
            T = ot.threshold_alphabet(vals)
            order = list(range(len(data)))
            if variant == 1:
                order = order[::-1]
            elif variant == 2:
                order = order[1::2] + order[0::2]
            d2 = [data[i] for i in order]
            pos_in = [(s, l) for s, p, l in d2 if p]
            neg_in = [(s, l) for s, p, l in d2 if not p]
            glist = sorted(set(l for _, _, l in data))
            explicit = variant == 1
            if explicit:
                names = (["zz"] + glist[::-1]) if not intlab else glist[::-1]
            else:
                names = None
            case = {"blocks": item["blocks"], "assign": list(assign), "cfg": list(cfg), "variant": variant,
                    "pos": pos_in, "neg": neg_in, "group_names": names}
            ctx.state()
            lacks = any(not any(p for s, p, l in data if l == gname) or all(p for s, p, l in data if l == gname)
                        for gname in glist)
            if len(glist) >= 2 and lacks:
                ctx.nontrivial()
            kw = {} if names is None else {"group_names": names}
            ok, g = guarded(ctx, "construct", case, lambda: GroupScores(
                pos=[s for s, _ in pos_in], neg=[s for s, _ in neg_in], pos_groups=[l for _, l in pos_in],
                neg_groups=[l for _, l in neg_in], score_class=sc, equal_class=ec, **kw))
            if not ok:
                continue
            expected_groups = names if names is not None else glist
            check_object(ctx, case, g, data, cfg, expected_groups, T)
            if ai % 3 == 0:
                # the caller passes its own ndarrays and builds a second object from the very same arrays
                arrs = [np.array([s for s, _ in pos_in], dtype=float), np.array([s for s, _ in neg_in], dtype=float),
                        np.array([l for _, l in pos_in]), np.array([l for _, l in neg_in])]
                keep = [a.copy() for a in arrs]
                for second_cfg in (cfg, ot.CFGS[(ai + 1) % 4]):
                    ok, gx = guarded(ctx, "construct-from-ndarrays", case, lambda: GroupScores(
                        pos=arrs[0], neg=arrs[1], pos_groups=arrs[2], neg_groups=arrs[3], score_class=second_cfg[0],
                        equal_class=second_cfg[1], **kw))
                    ctx.tick()
                    if ok:
                        check_object(ctx, dict(case, via="ndarray inputs, reused", cfg=list(second_cfg)), gx, data, second_cfg,
                                     expected_groups, T)
                    if any(not np.array_equal(a, k_) for a, k_ in zip(arrs, keep)):
                        ctx.fail("caller-arrays-unchanged-by-construction", case, observed=[a.tolist() for a in arrs],
                                 expected=[k_.tolist() for k_ in keep])
                        break
            ctx.outcome((tuple(assign), cfg, g.cm(np.array(T)).matrix.tobytes()))
            # unsigned-integer scores, unsorted (labels must still travel with their scores)
            if variant == 0 and ai % 2 == 0:
                u_data = [(float(int(s_ * 2)), p_, l_) for s_, p_, l_ in data]
                ok, gu = guarded(ctx, "construct-uint8", case, lambda: GroupScores(
                    pos=np.array([int(s_ * 2) for s_, _ in pos_in][::-1], dtype=np.uint8),
                    neg=np.array([int(s_ * 2) for s_, _ in neg_in][::-1], dtype=np.uint8),
                    pos_groups=[l for _, l in pos_in][::-1], neg_groups=[l for _, l in neg_in][::-1], score_class=sc, equal_class=ec))
                ctx.tick()
                if ok:
                    check_object(ctx, dict(case, dtype="uint8"), gu, u_data, cfg, glist,
                                 ot.threshold_alphabet(sorted(set(v for v, _, _ in u_data))))
            # from_labels
            if variant == 0:
                ok, g2 = guarded(ctx, "from_labels", case, lambda: GroupScores.from_labels(
                    labels=[1 if p else 0 for s, p, l in d2[::-1]], scores=[s for s, p, l in d2[::-1]],
                    groups=[l for s, p, l in d2[::-1]], score_class=sc, equal_class=ec))
                if ok:
                    check_object(ctx, dict(case, via="from_labels"), g2, data, cfg, glist, T)
            # swap
            ok, sw = guarded(ctx, "swap", case, g.swap)
            if ok:
                swapped = [(s, not p, l) for s, p, l in data]
                flip = {"pos": "neg", "neg": "pos"}
                check_object(ctx, dict(case, via="swap"), sw, swapped, (flip[sc], flip[ec]), None, T)
                # swap after the cache has been filled, and back
                ok, sw2 = guarded(ctx, "swap-swap", case, lambda: sw.swap())
                if ok:
                    check_object(ctx, dict(case, via="swap.swap"), sw2, data, cfg, None, T)
                    check_object(ctx, dict(case, via="swap-after-queries"), g.swap(), swapped, (flip[sc], flip[ec]),
                                 None, T)
    ctx.sample({"kind": "det", "blocks": item["blocks"], "labels": labels, "assignments": len(labels) ** n})
    return None


# --------------------------------------------------------------------------- #
def _run_sampling(item, ctx, seed):
    from score_analysis import BootstrapConfig, GroupScores

    blocks = [tuple(x) for x in item["blocks"]]
    n = sum(a + c for a, c in blocks)
    assigns = [a for a in itertools.product(LABELS[:2], repeat=n)]
    # a spread of assignments incl. one where every group has both classes
    picks = assigns[:: max(1, len(assigns) // 5)] + [assigns[-1]]
    for assign in picks:
        data, vals = labelled(blocks, assign, "irregular", seed)
        glist = sorted(set(l for _, _, l in data))
        names = glist + ["zz"] if len(glist) == 1 else glist
        pos_in = [(s, l) for s, p, l in data if p][::-1]
        neg_in = [(s, l) for s, p, l in data if not p][::-1]
        cfg = ot.CFGS[len(assign) % 4]
        src = GroupScores(pos=[s for s, _ in pos_in], neg=[s for s, _ in neg_in], pos_groups=[l for _, l in pos_in],
                          neg_groups=[l for _, l in neg_in], score_class=cfg[0], equal_class=cfg[1], group_names=names)
        all_both = all(any(p for s, p, l in data if l == gname) and any(not p for s, p, l in data if l == gname)
                       for gname in glist)
        modes = [("replacement", None), ("replacement", "by_label"), ("dynamic", None), ("single_pass", "by_label"),
                 ("single_pass", None), ("replacement", "by_group"), ("dynamic", "by_group")]
        if all_both:
            modes.append(("single_pass", "by_group"))
        src_pos = sorted((s, l) for s, p, l in data if p)
        src_neg = sorted((s, l) for s, p, l in data if not p)
        T = np.array(ot.threshold_alphabet(vals))
        for method, strat in modes:
            if strat == "by_group" and any(
                    not any(True for s, p, l in data if l == gname) for gname in names):
                # an explicitly named group without any sample cannot be sampled from (empty stratum)
                continue
            case = {"pos": pos_in, "neg": neg_in, "cfg": list(cfg), "method": method, "stratified": strat,
                    "group_names": names}
            # option strings as literal / equal string built at run time / NumPy string, rotating over the modes
            kind_i = (len(method) + len(strat or "")) % 3
            cfgobj = BootstrapConfig(sampling_method=ot.string_kinds(method)[kind_i][1],
                                     stratified_sampling=None if strat is None else ot.string_kinds(strat)[(kind_i + 1) % 3][1])
            ctx.state()
            mass, leaves, exact = 0.0, 0, True

            def fn(orc):
                return src.bootstrap_sample(cfgobj)

            def obs(smp):
                return (_pairs(smp.pos, smp.pos_groups), _pairs(smp.neg, smp.neg_groups))

            try:
                for orc, smp in rngtree.explore(fn, observe=obs, twice=True):
                    leaves += 1
                    ctx.tick()
                    mass += orc.prob
                    exact = exact and orc.exact
                    c2 = dict(case, answers=orc.choices)
                    if orc.nondeterministic:
                        ctx.fail("deterministic-given-answers", c2, observed="second run differs", expected="identical")
                    pp, nn = obs(smp)
                    if pp != sorted(pp) or not set(pp) <= set(src_pos) or not set(nn) <= set(src_neg):
                        ctx.fail("sampled-pairs-are-source-pairs", c2, observed=[pp, nn], expected=[src_pos, src_neg])
                    if pp != src_pos or nn != src_neg:
                        ctx.nontrivial()
                    if (np.any(np.diff(np.asarray(smp.pos, dtype=float)) < 0)
                            or np.any(np.diff(np.asarray(smp.neg, dtype=float)) < 0)):
                        ctx.fail("sample-internally-ordered", c2, observed=[smp.pos, smp.neg], expected="ascending")
                    if [str(x) for x in smp.groups] != [str(x) for x in names]:
                        ctx.fail("group-names-preserved-in-order", c2, observed=list(map(str, smp.groups)), expected=names)
                        continue
                    if not (smp.score_class == cfg[0] and smp.equal_class == cfg[1]):
                        ctx.fail("flags-kept", c2, observed=[str(smp.score_class), str(smp.equal_class)], expected=list(cfg))
                    if strat == "by_group" and method != "single_pass":
                        for gname in names:
                            want = sum(1 for s, p, l in data if l == gname)
                            got = sum(1 for x in list(smp.pos_groups) + list(smp.neg_groups) if str(x) == gname)
                            if got != want:
                                ctx.fail("by-group-preserves-group-counts", dict(c2, group=gname), observed=got, expected=want)
                    if strat == "by_label" and method == "replacement":
                        if len(smp.pos) != len(src_pos) or len(smp.neg) != len(src_neg):
                            ctx.fail("by-label-preserves-class-counts", c2, observed=[len(smp.pos), len(smp.neg)],
                                     expected=[len(src_pos), len(src_neg)])
                    if method in ("replacement", "dynamic") and len(smp.pos) + len(smp.neg) != len(data):
                        ctx.fail("replacement-preserves-total-count", c2, observed=len(smp.pos) + len(smp.neg), expected=len(data))
                    # the sample is itself a consistent GroupScores object
                    gcm, cm = smp.group_cm(T).matrix, smp.cm(T).matrix
                    if not np.array_equal(gcm.sum(axis=0), cm):
                        ctx.fail("sample-group-cms-sum-to-cm", c2, observed=gcm.sum(axis=0), expected=cm)
                    want = np.array([refs.ref_cm([s for s, _ in pp], [s for s, _ in nn], t, cfg[0], cfg[1]) for t in T.tolist()])
                    if not np.array_equal(cm, want):
                        ctx.fail("sample-metrics-equal-direct-counting", c2, observed=cm, expected=want)
                    for gi, gname in enumerate(names):
                        w = np.array([refs.ref_cm([s for s, l in pp if l == gname], [s for s, l in nn if l == gname], t,
                                                  cfg[0], cfg[1]) for t in T.tolist()])
                        if not np.array_equal(gcm[gi], w):
                            ctx.fail("sample-group-cm-equals-filtered-counting", dict(c2, group=gname), observed=gcm[gi], expected=w)
                            break
            except rngtree.UnownedRNG as e:
                raise HarnessError(str(e))
            except ZeroDivisionError:
                if strat == "by_group":
                    continue  # a stratum without one of the classes: excluded by the quantifier
                raise
            ctx.add("leaves", leaves)
            ctx.outcome((method, strat, leaves))
            if exact and abs(mass - 1.0) > 1e-9:
                ctx.fail("leaf-probabilities-sum-to-one", case, observed=mass, expected=1.0)
            elif exact:
                ctx.add("complete_answer_trees_with_leaf_mass_1")
        # the same source with unsigned 8-bit scores (differences of neighbours wrap there): every sample is internally
        # ordered and consistent with counting on its own arrays, its group matrices sum to its matrix
        src_u8 = GroupScores(pos=np.array([int(s * 2) for s, _ in pos_in], dtype=np.uint8), neg=np.array([int(s * 2) for s, _ in neg_in], dtype=np.uint8),
                             pos_groups=[l for _, l in pos_in], neg_groups=[l for _, l in neg_in], score_class=cfg[0], equal_class=cfg[1],
                             group_names=names)
        Tu = np.array(sorted({float(int(s * 2)) + d for s, p, l in data for d in (-0.5, 0.0, 0.5)}))
        for method, strat in [("single_pass", None), ("replacement", "by_group")] + ([("single_pass", "by_group")] if all_both else []):
            if strat == "by_group" and any(not any(True for s, p, l in data if l == gname) for gname in names):
                continue
            cfgobj = BootstrapConfig(sampling_method=method, stratified_sampling=strat)
            case = {"pos": pos_in, "neg": neg_in, "dtype": "uint8 (scores x 2)", "cfg": list(cfg), "method": method, "stratified": strat, "group_names": names}
            ctx.state()
            try:
                for orc, smp in rngtree.explore(lambda o: src_u8.bootstrap_sample(cfgobj), observe=lambda m: (np.asarray(m.pos).tobytes(), np.asarray(m.neg).tobytes()), twice=False):
                    ctx.tick()
                    ctx.nontrivial()
                    c2 = dict(case, answers=orc.choices)
                    sp, sn = np.asarray(smp.pos, dtype=float), np.asarray(smp.neg, dtype=float)
                    if np.any(np.diff(sp) < 0) or np.any(np.diff(sn) < 0):
                        ctx.fail("sample-internally-ordered", c2, observed=[sp, sn], expected="ascending")
                        break
                    gcm, cm = smp.group_cm(Tu).matrix, smp.cm(Tu).matrix
                    if not np.array_equal(gcm.sum(axis=0), cm):
                        ctx.fail("sample-group-cms-sum-to-cm", c2, observed=gcm.sum(axis=0), expected=cm)
                        break
                    want = np.array([refs.ref_cm(sp.tolist(), sn.tolist(), t, cfg[0], cfg[1]) for t in Tu.tolist()])
                    if not np.array_equal(cm, want):
                        ctx.fail("sample-metrics-equal-direct-counting", c2, observed=cm, expected=want)
                        break
            except rngtree.UnownedRNG as e:
                raise HarnessError(str(e))
            except ZeroDivisionError:
                if strat == "by_group":
                    continue
                raise
        # unsupported modes raise
        for bad in (BootstrapConfig(sampling_method="proportion", ratio=0.5), BootstrapConfig(smoothing=True),
                    BootstrapConfig(sampling_method="replacement", stratified_sampling="by_nothing")):
            ctx.tick()
            try:
                src.bootstrap_sample(bad)
                ctx.fail("unsupported-mode-raises", {"config": repr(bad)}, observed="no exception", expected="ValueError")
            except ValueError:
                pass
    ctx.sample({"kind": "sampling", "blocks": item["blocks"], "assignments": [list(a) for a in picks[:3]]})
    return None


# --------------------------------------------------------------------------- #
def _history_object(which):
    from score_analysis import GroupScores

    specs = [
        dict(pos=[3.0, 1.0, 2.0, 2.0], neg=[0.0, 2.0, 5.0], pos_groups=["a", "bb", "a", "c_3"], neg_groups=["bb", "a", "bb"]),
        dict(pos=[1, 4, 4], neg=[2, 0, 3, 4], pos_groups=[3, 1, 3], neg_groups=[1, 20, 3, 20], score_class="neg"),
        dict(pos=[0.5], neg=[0.25, 0.75, 0.5], pos_groups=["a"], neg_groups=["a", "bb", "bb"], equal_class="neg",
             group_names=["bb", "zz", "a"]),
        dict(pos=[2.0, 7.0, 1.0, 3.0, 3.0], neg=[2.5, 3.0, 0.0, 9.0], pos_groups=list("xyxyz"), neg_groups=list("zxyx"),
             score_class="neg", equal_class="neg"),
        dict(pos=[1.0, 2.0], neg=[1.5], pos_groups=["a", "a"], neg_groups=["a"]),
        dict(pos=[], neg=[1.0, 2.0], pos_groups=[], neg_groups=["a", "bb"]),
    ]
    sp = specs[which % len(specs)]
    return lambda: GroupScores(**sp), sp


def _run_history(item, ctx):
    from score_analysis import BootstrapConfig
    from score_analysis.group_scores import groupwise

    make, spec = _history_object(item["which"])
    probe = make()
    names = list(probe.groups)
    present = sorted(set(list(spec["pos_groups"]) + list(spec["neg_groups"])), key=str)
    vals = sorted(set(map(float, list(spec["pos"]) + list(spec["neg"]))))

    def make_env():
        return {"T": np.array(ot.threshold_alphabet(vals)[::2]), "t0": np.array(vals[:1]), "r": np.array([0.0, 0.3, 0.5, 1.0])}

    events = []
    for gname in names:
        events.append((f"getitem[{gname!r}]", lambda o, e, gname=gname: o[gname]))
    events += [
        ("group_cm", lambda o, e: o.group_cm(e["T"])),
        ("cm", lambda o, e: o.cm(e["T"])),
        ("group_fnr", lambda o, e: o.group_fnr(e["T"])),
        ("group_topr", lambda o, e: o.group_topr(e["t0"])),
        ("groupwise-tpr", lambda o, e: groupwise("tpr")(o, threshold=e["T"])),
        ("swap.group_cm", lambda o, e: o.swap().group_cm(e["T"])),
        ("swap.swap.group_fpr", lambda o, e: o.swap().swap().group_fpr(e["T"])),
        ("swap[first]", lambda o, e: o.swap()[names[0]]),
        ("bootstrap_metric-identity", lambda o, e: o.bootstrap_metric(
            "group_fnr", config=BootstrapConfig(nb_samples=2, sampling_method=lambda s: s), threshold=e["T"])),
    ]
    strata_ok = all(any(str(x) == str(g_) for x in list(spec["pos_groups"]) + list(spec["neg_groups"])) for g_ in names)
    for strat in (None, "by_label") + (("by_group",) if strata_ok else ()):
        for sd in (1, 2):
            def ev(o, e, strat=strat, sd=sd):
                st = np.random.get_state()
                np.random.seed(sd)
                try:
                    return o.bootstrap_sample(BootstrapConfig(sampling_method="replacement", stratified_sampling=strat))
                finally:
                    np.random.set_state(st)
            events.append((f"bootstrap_sample[{strat},seed={sd}]", ev))
    if probe.pos.size:
        events.append(("threshold_at_fnr", lambda o, e: o.threshold_at_fnr(e["r"])))

    case = {"kind": "history", "object": {k: (list(v) if isinstance(v, list) else v) for k, v in spec.items()},
            "uses_global_rng": False}
    res = opgraph.explore(make, make_env, events, opgraph.snapshot_scores, ctx, case, max_states=2 ** len(names) + 4)
    ctx.state(res["states"])
    ctx.nontrivial(res["states"] - 1)
    if not res["fixpoint"]:
        ctx.add("caps_hit")
    expect = 2 ** len(names)
    if res["states"] > expect:
        ctx.fail("reachable-states-are-cache-subsets", case, observed=res["states"], expected=f"<= {expect}")
    ctx.sample({"kind": "history", "object": case["object"], "events": [n for n, _ in events], "result": res})
    return None


def _run_large(item, ctx, seed):
    """Groups with >= 100 scores per class (the size at which 'dynamic' may switch method), real RNG, three seeds."""
    from score_analysis import BootstrapConfig, GroupScores

    rng_ = np.random.default_rng(12345)
    for sizes in ({"a": (100, 100), "bb": (120, 101)}, {"a": (100, 100), "bb": (99, 130)}, {"a": (150, 160)}):
        pos, neg, pg, ng = [], [], [], []
        for gname, (npz, nng) in sizes.items():
            pos += list(np.round(rng_.normal(1.0, 1.0, npz), 3))
            neg += list(np.round(rng_.normal(0.0, 1.0, nng), 3))
            pg += [gname] * npz
            ng += [gname] * nng
        src = GroupScores(pos=pos, neg=neg, pos_groups=pg, neg_groups=ng)
        src_pairs = (set(zip(map(float, pos), pg)), set(zip(map(float, neg), ng)))
        T = np.array([-1.0, 0.0, 0.5, 1.0, 2.0])
        for method, strat in (("dynamic", "by_group"), ("dynamic", None), ("dynamic", "by_label"), ("replacement", "by_group")):
            for sd in (seed, seed + 1, seed + 2):
                case = {"kind": "large", "group_sizes": {k: list(v) for k, v in sizes.items()}, "method": method, "stratified": strat,
                        "np_random_seed": sd}
                st = np.random.get_state()
                np.random.seed(sd)
                try:
                    ok, smp = guarded(ctx, "bootstrap_sample", case, lambda: src.bootstrap_sample(
                        BootstrapConfig(sampling_method=method, stratified_sampling=strat)))
                finally:
                    np.random.set_state(st)
                ctx.state()
                ctx.tick()
                ctx.nontrivial()
                if not ok:
                    continue
                pp = set(zip(map(float, smp.pos), map(str, smp.pos_groups)))
                nn = set(zip(map(float, smp.neg), map(str, smp.neg_groups)))
                if not (pp <= src_pairs[0] and nn <= src_pairs[1]):
                    ctx.fail("sampled-pairs-are-source-pairs", case, observed="foreign (score, label) pair", expected="subset of the source")
                if np.any(np.diff(np.asarray(smp.pos, dtype=float)) < 0) or np.any(np.diff(np.asarray(smp.neg, dtype=float)) < 0):
                    ctx.fail("sample-internally-ordered", case, observed="unsorted", expected="ascending")
                if list(map(str, smp.groups)) != list(map(str, src.groups)):
                    ctx.fail("group-names-preserved-in-order", case, observed=list(map(str, smp.groups)), expected=list(map(str, src.groups)))
                if strat == "by_group":
                    for gname, (npz, nng) in sizes.items():
                        got = int(np.sum(np.asarray(smp.pos_groups) == gname) + np.sum(np.asarray(smp.neg_groups) == gname))
                        if got != npz + nng:
                            ctx.fail("by-group-preserves-group-counts", dict(case, group=gname), observed=got, expected=npz + nng)
                if not np.array_equal(smp.group_cm(T).matrix.sum(axis=0), smp.cm(T).matrix):
                    ctx.fail("sample-group-cms-sum-to-cm", case, observed=smp.group_cm(T).matrix.sum(axis=0), expected=smp.cm(T).matrix)
    ctx.sample({"kind": "large", "sizes": "groups of 99..160 scores per class", "seeds": [seed, seed + 1, seed + 2]})
    return None

"""C15 - ROC curves are genuine operating points, ordered along the chosen x-axis."""

from __future__ import annotations

import itertools
import math

import numpy as np

from mc import ordertypes as ot
from mc.harness import guarded

ID = "C15"
TITLE = "ROC curves are genuine operating points, ordered along the chosen x-axis"
ENGINE = "order-type-explorer"
RULE = (
    "state = (order type, concretisation/dtype, cfg, easy counts); transition = one roc() call for one combination "
    "of supplied fnr / fpr / thresholds / nb_points / x_axis, judged against the object's own fnr/fpr/"
    "threshold_at_* methods; non-trivial = at least two distinct thresholds on the curve and (ties, easy samples, "
    "score_class=neg or an unsorted/out-of-range supplied point); distinct by construction"
)
ASSUMPTIONS = [
    "supplied-point menus: fnr, fpr in {None, [], [0,.3,1], [.5]}, thresholds in {None, unsorted finite, [inf]}, "
    "nb_points in {None,0,1,2,5}; every (menu, nb_points) combination is run with one x_axis (rotating through "
    "all 8 names) and three combinations with all 8",
    "score dtypes float64, int64 and uint8 (smallest value 0)",
]
AXES = ["fpr", "fnr", "tnr", "tpr", "far", "frr", "trr", "tar"]
RATE_MENU = [None, [], [0.0, 0.3, 1.0], [0.5]]
NBP = [None, 0, 1, 2, 5]


def bounds(tier):
    if tier == "quick":
        return {"max_pos": 3, "max_neg": 2, "easy": [[0, 0], [1, 2]], "grids": ["irregular", "uint", "mixed_narrow", "mixed_narrow_neg"],
                "nb_points": NBP, "rate_menu": RATE_MENU}
    return {"max_pos": 4, "max_neg": 3, "easy": [[0, 0], [1, 2], [3, 0]], "grids": ["irregular", "uint", "int", "dyadic", "mixed", "mixed_narrow", "mixed_narrow_neg", "mixed_f32"],
            "nb_points": NBP + [11], "rate_menu": RATE_MENU + [[0.25, 0.75, 0.1]]}


def work(tier, seed):
    b = bounds(tier)
    items = [{"blocks": [list(x) for x in bl], "grid": g}
             for bl in ot.order_types(b["max_pos"], b["max_neg"], 1, 1) for g in b["grids"]
             # thorough: every grid on data sets of up to 5 scores, the main two beyond
             if tier == "quick" or sum(a + c for a, c in bl) <= 5 or g in ("irregular", "uint")]
    items.append({"kind": "nb_points_kinds"})
    for bl in ot.order_types(2, 2, 1, 1):
        items.append({"kind": "special_objects", "blocks": [list(x) for x in bl]})
    for base in (2**53 - 4, 2**53, 2**60, -(2**53) - 6):
        items.append({"kind": "bigint", "base": base})
    return items


def _run_nb_points_kinds(ctx):
    """nb_points handed over as Python int and as NumPy integer scalars of every width, up to the top of the type."""
    from score_analysis import Scores
    from score_analysis.roc_curve import roc

    pos, neg = [0.5, 1.25, 2.0, 3.5, 2.0], [-3.0, 0.75, 1.25, 2.5]
    menu = []
    for dt in (np.uint8, np.int8, np.uint16, np.int16, np.int32, np.int64, np.uint32, np.uint64):
        top = int(np.iinfo(dt).max)
        for v in (2, 5, 100, 127, 128, 255, 256, 32767, 65535):
            if v <= top:
                menu.append((np.dtype(dt).name, dt(v), v))
    menu += [("int", v, v) for v in (2, 5, 255, 65535)]
    for cfg in (ot.CFGS[0], ot.CFGS[2]):
        s = Scores(pos, neg, nb_easy_pos=1, score_class=cfg[0], equal_class=cfg[1])
        for ax in ("fpr", "tnr"):
            for tname, arg, v in menu:
                case = {"kind": "nb_points_kinds", "nb_points": v, "passed_as": tname, "cfg": list(cfg), "x_axis": ax}
                ctx.state()
                ctx.nontrivial()
                ok, r = guarded(ctx, "roc", case, lambda: roc(s, nb_points=arg, x_axis=ax))
                ctx.tick()
                if not ok:
                    continue
                th = np.asarray(r.thresholds, dtype=float)
                if len(th) != v:
                    ctx.fail("default-curve-length", case, observed=len(th), expected=v)
                    continue
                if not (np.array_equal(np.asarray(r.fnr, dtype=float), np.asarray(s.fnr(th), dtype=float))
                        and np.array_equal(np.asarray(r.fpr, dtype=float), np.asarray(s.fpr(th), dtype=float))):
                    ctx.fail("rates-are-the-objects-rates-at-thresholds", case, observed="differs", expected="equal")
                if not _isnondecreasing(getattr(r, ax)):
                    ctx.fail("x-axis-non-decreasing", case, observed="decreasing somewhere", expected="non-decreasing")
    ctx.sample({"kind": "nb_points_kinds", "menu": len(menu)})
    return None


def _run_special_objects(item, ctx):
    """
    (a) a user's subclass that overrides fnr / fpr (samples that could not be scored count as errors): the curve's
        rates are *that object's* rates at the returned thresholds;
    (b) scores of -inf / +inf (log(0), saturated logits): one point per scored sample when nb_points is None, rates by
        counting.
    """
    from mc import refs
    from score_analysis import Scores
    from score_analysis.roc_curve import roc

    class ScoresWithFailures(Scores):
        failures_pos, failures_neg = 2, 1

        def fnr(self, threshold):
            cm = self.cm(threshold)
            return (cm.fn() + self.failures_pos) / (cm.p() + self.failures_pos)

        def fpr(self, threshold):
            cm = self.cm(threshold)
            return (cm.fp() + self.failures_neg) / (cm.n() + self.failures_neg)

    blocks = [tuple(x) for x in item["blocks"]]
    pos, neg, vals = ot.concretise(blocks, "irregular", 0)
    for cfg in ot.CFGS:
        sc, ec = cfg
        # (a)
        s = ScoresWithFailures(pos[::-1], neg[::-1], nb_easy_pos=1, score_class=sc, equal_class=ec)
        for ax in ("fpr", "fnr"):
            for kw in ({"nb_points": None}, {"nb_points": 5}, {"thresholds": [float(vals[0]), float(vals[-1]) + 1.0]}):
                case = {"blocks": item["blocks"], "pos": pos, "neg": neg, "cfg": list(cfg), "object": "subclass overriding fnr / fpr", "x_axis": ax,
                        "arguments": {k: (v if not isinstance(v, list) else v) for k, v in kw.items()}}
                ctx.state()
                ctx.nontrivial()
                ok, r = guarded(ctx, "roc", case, lambda: roc(s, x_axis=ax, **kw))
                ctx.tick()
                if not ok:
                    continue
                th = np.asarray(r.thresholds, dtype=float)
                if not (np.array_equal(np.asarray(r.fnr, dtype=float), np.asarray(s.fnr(th), dtype=float), equal_nan=True)
                        and np.array_equal(np.asarray(r.fpr, dtype=float), np.asarray(s.fpr(th), dtype=float), equal_nan=True)):
                    ctx.fail("rates-are-the-objects-rates-at-thresholds", case, observed=[r.fnr, r.fpr], expected=[s.fnr(th), s.fpr(th)])
        # (b)
        for which in ("low", "high", "both"):
            pv = [(-math.inf if v == vals[0] and which in ("low", "both") else math.inf if v == vals[-1] and which in ("high", "both") and len(vals) > 1 else v)
                  for v in pos]
            nv = [(-math.inf if v == vals[0] and which in ("low", "both") else math.inf if v == vals[-1] and which in ("high", "both") and len(vals) > 1 else v)
                  for v in neg]
            si = Scores(pv[::-1], nv[::-1], score_class=sc, equal_class=ec)
            for ax in ("fpr", "tnr"):
                case = {"blocks": item["blocks"], "pos": [str(v) for v in pv], "neg": [str(v) for v in nv], "cfg": list(cfg), "object": "infinite scores",
                        "x_axis": ax}
                ctx.state()
                ctx.nontrivial()
                ok, r = guarded(ctx, "roc", case, lambda: roc(si, nb_points=None, x_axis=ax))
                ctx.tick()
                if not ok:
                    continue
                th = np.asarray(r.thresholds, dtype=float)
                if len(th) != len(pv) + len(nv):
                    ctx.fail("default-curve-length", case, observed=len(th), expected=len(pv) + len(nv))
                    continue
                if sorted(th.tolist()) != sorted(pv + nv):
                    ctx.fail("one-point-per-scored-sample", case, observed=[str(t) for t in th.tolist()], expected=[str(t) for t in sorted(pv + nv)])
                    continue
                for t, fn_, fp_ in zip(th.tolist(), np.asarray(r.fnr, dtype=float).tolist(), np.asarray(r.fpr, dtype=float).tolist()):
                    want = refs.ref_rates(refs.ref_cm(pv, nv, t, sc, ec))
                    if not (refs.same_float(fn_, want["fnr"]) and refs.same_float(fp_, want["fpr"])):
                        ctx.fail("rates-are-the-objects-rates-at-thresholds", dict(case, threshold=str(t)), observed=[fn_, fp_],
                                 expected=[float(want["fnr"]), float(want["fpr"])])
                        break
                if not _isnondecreasing(getattr(r, ax)):
                    ctx.fail("x-axis-non-decreasing", case, observed=getattr(r, ax), expected="non-decreasing")
    ctx.sample({"kind": "special_objects", "blocks": item["blocks"]})
    return None


def _run_bigint(item, ctx):
    """Integer scores and integer thresholds beyond 2^53: supplied thresholds appear on the curve as given and the
    rates are those of exact integer comparisons."""
    from mc import refs
    from score_analysis import Scores
    from score_analysis.roc_curve import roc

    base = item["base"]
    pos = [base + 1, base + 4, base + 5, base + 9, base + 5]
    neg = [base, base + 2, base + 5, base + 7]
    for cfg in ot.CFGS:
        s = Scores(np.array(pos, dtype=np.int64), np.array(neg, dtype=np.int64), score_class=cfg[0], equal_class=cfg[1])
        for thr_kind, thr in (("list-of-int", [base + 5, base + 3, base + 8]), ("int64-array", np.array([base + 6, base + 1, base + 5], dtype=np.int64)),
                              ("one-int", [base + 3])):
            for ax in ("fpr", "fnr"):
                case = {"kind": "bigint", "base": base, "pos_offsets": [p - base for p in pos], "neg_offsets": [n - base for n in neg],
                        "thresholds": thr_kind, "cfg": list(cfg), "x_axis": ax}
                ctx.state()
                ctx.nontrivial()
                ok, r = guarded(ctx, "roc", case, lambda: roc(s, thresholds=thr, x_axis=ax))
                ctx.tick()
                if not ok:
                    continue
                got_t = [int(t) for t in np.asarray(r.thresholds).tolist()] if np.asarray(r.thresholds).dtype.kind in "iu" else None
                want_t = sorted(int(t) for t in (thr.tolist() if isinstance(thr, np.ndarray) else thr))
                if got_t is None or sorted(got_t) != want_t:
                    ctx.fail("supplied-thresholds-present", case, observed=[str(t) for t in np.asarray(r.thresholds).tolist()],
                             expected=[str(t) for t in want_t])
                    continue
                for t, fn_, fp_ in zip(got_t, np.asarray(r.fnr, dtype=float).tolist(), np.asarray(r.fpr, dtype=float).tolist()):
                    want = refs.ref_rates(refs.ref_cm(pos, neg, t, cfg[0], cfg[1]))
                    if not (refs.same_float(fn_, want["fnr"]) and refs.same_float(fp_, want["fpr"])):
                        ctx.fail("rates-are-the-objects-rates-at-thresholds", dict(case, threshold_offset=t - base), observed=[fn_, fp_],
                                 expected=[float(want["fnr"]), float(want["fpr"])])
                        break
    ctx.sample({"kind": "bigint", "base": base})
    return None


def _isnondecreasing(v):
    v = np.asarray(v, dtype=float)
    return bool(np.all(np.diff(v) >= 0))


def run(item, ctx, tier, seed):
    from score_analysis import Scores
    from score_analysis.roc_curve import roc

    b = bounds(tier)
    if item.get("kind") == "nb_points_kinds":
        return _run_nb_points_kinds(ctx)
    if item.get("kind") == "bigint":
        return _run_bigint(item, ctx)
    if item.get("kind") == "special_objects":
        return _run_special_objects(item, ctx)
    blocks = [tuple(x) for x in item["blocks"]]
    if item["grid"] in ot.MIXED_KINDS:  # classes stored in different dtypes, the narrower unable to hold the other's values
        pos, neg, vals, parr, narr = ot.concretise_mixed(blocks, item["grid"])
        dt = None
    else:
        pos, neg, vals = ot.concretise(blocks, item["grid"], seed)
        dt = {"uint": np.uint8, "int": np.int64}.get(item["grid"], np.float64)
        parr, narr = np.array(pos[::-1], dtype=dt), np.array(neg[::-1], dtype=dt)
    anytie = any(a + c > 1 for a, c in blocks)
    lo, hi = float(vals[0]), float(vals[-1])
    thr_menu = [None, [lo + 1.0, lo - 5.0, (lo + hi) / 2 + 0.2], [math.inf], "ints"]
    combos = list(itertools.product(range(len(b["rate_menu"])), range(len(b["rate_menu"])), range(len(thr_menu)),
                                    range(len(b["nb_points"]))))
    for cfg in ot.CFGS:
        sc, ec = cfg
        for ep, en in [tuple(e) for e in b["easy"]]:
            base = {"blocks": item["blocks"], "grid": item["grid"], "pos": pos, "neg": neg, "cfg": cfg,
                    "easy": [ep, en]}
            ok, s0 = guarded(ctx, "construct", base, Scores, parr.copy(), narr.copy(),
                             nb_easy_pos=ep, nb_easy_neg=en, score_class=sc, equal_class=ec)
            if not ok:
                continue
            derived = [("constructed", s0, combos)]
            ok, sw = guarded(ctx, "swap", base, s0.swap)
            if ok:
                # objects derived through swap() are Scores objects like any other
                derived.append(("swap()", sw, combos[3::17]))
            if item["grid"] == "irregular" and (ep, en) == (1, 2):
                from mc.derived import derived_objects
                from mc import refs

                for how_, d_ in derived_objects(s0, seed, with_swap=False):
                    # the curve of a bootstrap sample: rates must be the sample's rates by definition (counting on
                    # the sample's own score arrays), whatever its internal order
                    dp, dn = np.asarray(d_.pos, dtype=float).tolist(), np.asarray(d_.neg, dtype=float).tolist()
                    okr, rr = guarded(ctx, "roc-derived", dict(base, derived=how_), lambda: roc(d_, nb_points=None, x_axis="fpr"))
                    ctx.tick()
                    ctx.state()
                    if not okr:
                        continue
                    for t_, fn_, fp_ in zip(np.asarray(rr.thresholds, dtype=float).tolist(), np.asarray(rr.fnr).tolist(),
                                            np.asarray(rr.fpr).tolist()):
                        m_ = refs.ref_cm(dp, dn, t_, d_.score_class.value, d_.equal_class.value, int(d_.nb_easy_pos), int(d_.nb_easy_neg))
                        want = refs.ref_rates(m_)
                        if not (refs.same_float(float(fn_), want["fnr"]) and refs.same_float(float(fp_), want["fpr"])):
                            ctx.fail("rates-of-derived-object-equal-counting", dict(base, derived=how_, pos=dp, neg=dn, threshold=t_),
                                     observed=[fn_, fp_], expected=[float(want["fnr"]), float(want["fpr"])])
                            break
                    if not _isnondecreasing(rr.fpr):
                        ctx.fail("x-axis-non-decreasing", dict(base, derived=how_), observed=rr.fpr, expected="non-decreasing")
            for how, s, cmb in derived:
              base = dict(base, derived=how)
              ctx.state()
              pos_keep, neg_keep = np.array(s.pos, copy=True), np.array(s.neg, copy=True)
              for ci, (i_fnr, i_fpr, i_thr, i_nb) in list(enumerate(combos)) if how == "constructed" else [(combos.index(c), c) for c in cmb]:
                  fnr_in, fpr_in = b["rate_menu"][i_fnr], b["rate_menu"][i_fpr]
                  thr_in, nbp = thr_menu[i_thr], b["nb_points"][i_nb]
                  axes = AXES if ci in (0, 37, 101) else [AXES[(ci + len(pos)) % 8]]
                  for ax in axes:
                      case = dict(base, fnr=fnr_in, fpr=fpr_in, thresholds=thr_in, nb_points=nbp, x_axis=ax)
                      kw = {}
                      if fnr_in is not None:
                          kw["fnr"] = np.array(fnr_in, dtype=float)
                      if fpr_in is not None:
                          kw["fpr"] = np.array(fpr_in, dtype=float)
                      if thr_in == "ints":  # a plain list of Python ints (integer dtype once converted)
                          thr_in = [int(lo) + 1, int(lo) - 4, int(hi)]
                          case["thresholds"] = thr_in
                          kw["thresholds"] = list(thr_in)
                      elif thr_in is not None:
                          kw["thresholds"] = np.array(thr_in, dtype=float)
                      snip = ("import numpy as np\nfrom score_analysis import Scores\nfrom score_analysis.roc_curve import roc\n"
                              f"s = Scores(np.array({pos!r}, dtype=np.{parr.dtype.name}), np.array({neg!r}, dtype=np.{narr.dtype.name}), "
                              f"nb_easy_pos={ep}, nb_easy_neg={en}, score_class={sc!r}, equal_class={ec!r})\n"
                              f"r = roc(s, fnr={fnr_in!r}, fpr={fpr_in!r}, thresholds={thr_in!r}, nb_points={nbp!r}, x_axis={ax!r})\n"
                              "print(r.thresholds, r.fnr, r.fpr)\n").replace("inf", "np.inf")
                      kw_before = {k: (v.copy() if hasattr(v, "copy") else list(v)) for k, v in kw.items()}
                      ax_arg = ot.string_kinds(ax)[(ci + len(neg)) % 3][1]  # literal / built at run time / np.str_
                      ok, r = guarded(ctx, "roc", case, lambda: roc(s, nb_points=nbp, x_axis=ax_arg, **kw))
                      ctx.tick()
                      if not ok:
                          continue
                      if how == "constructed" and ci % 29 == 0:
                          # an equal object that answered other queries first gives the same curve
                          okw, w_ = guarded(ctx, "construct", case, Scores, parr.copy(), narr.copy(), nb_easy_pos=ep, nb_easy_neg=en,
                                            score_class=sc, equal_class=ec)
                          if okw:
                              for q_ in (lambda o: o.threshold_at_topr(0.3), lambda o: o.threshold_at_tonr(np.array([0.2, 0.6])), lambda o: o.eer(),
                                         lambda o: o.auc(), lambda o: o.threshold_at_fnr(0.25), lambda o: o.cm(np.array([lo, hi])).matrix):
                                  guarded(ctx, "warm-up", case, q_, w_)
                              okr, rw = guarded(ctx, "roc", case, lambda: roc(w_, nb_points=nbp, x_axis=ax, **{k_: (v_.copy() if hasattr(v_, "copy") else list(v_)) for k_, v_ in kw_before.items()}))
                              ctx.tick()
                              if okr and not all(np.array_equal(np.asarray(getattr(rw, f_), dtype=float), np.asarray(getattr(r, f_), dtype=float), equal_nan=True)
                                                 for f_ in ("thresholds", "fnr", "fpr")):
                                  ctx.fail("curve-independent-of-query-history", case, observed=[rw.thresholds, rw.fnr, rw.fpr],
                                           expected=[r.thresholds, r.fnr, r.fpr])
                      for k, v in kw.items():
                          if not np.array_equal(np.asarray(v, dtype=float), np.asarray(kw_before[k], dtype=float), equal_nan=True):
                              ctx.fail("supplied-arrays-unchanged", dict(case, argument=k), observed=v, expected=kw_before[k])
                      th = np.asarray(r.thresholds)
                      fnr, fpr = np.asarray(r.fnr, dtype=float), np.asarray(r.fpr, dtype=float)
                      if not (th.ndim == 1 and fnr.shape == th.shape and fpr.shape == th.shape):
                          ctx.fail("equal-lengths", case, observed=[list(th.shape), list(fnr.shape), list(fpr.shape)],
                                   expected="equal 1-d", snippet=snip)
                          continue
                      supplied = any(v is not None and len(v) for v in (fnr_in, fpr_in, thr_in))
                      if len(set(th.tolist())) >= 2 and (anytie or ep + en or sc == "neg" or supplied):
                          ctx.nontrivial()
                      ctx.outcome((ax, len(th), tuple(np.round(fnr, 6)), tuple(np.round(fpr, 6))))
                      if len(th):
                          w_fnr, w_fpr = np.asarray(s.fnr(th), dtype=float), np.asarray(s.fpr(th), dtype=float)
                          if not (np.array_equal(fnr, w_fnr, equal_nan=True) and np.array_equal(fpr, w_fpr, equal_nan=True)):
                              ctx.fail("rates-are-the-objects-rates-at-thresholds", case, observed=[fnr, fpr],
                                       expected=[w_fnr, w_fpr], snippet=snip)
                      view = np.asarray(getattr(r, ax), dtype=float)
                      if not _isnondecreasing(view):
                          ctx.fail("x-axis-non-decreasing", case, observed=view, expected="non-decreasing", snippet=snip)
                      thl = th.tolist()
                      if thr_in is not None:
                          miss = [t for t in thr_in if t not in thl]
                          if miss:
                              ctx.fail("supplied-thresholds-present", case, observed=thl, expected=miss, snippet=snip)
                      for nm, rates in (("fnr", fnr_in), ("fpr", fpr_in)):
                          if rates:
                              want = np.asarray(getattr(s, "threshold_at_" + nm)(np.array(rates, dtype=float)), dtype=float)
                              miss = [t for t in want.tolist() if t not in thl]
                              if miss:
                                  ctx.fail("thresholds-of-supplied-rates-present", dict(case, which=nm), observed=thl,
                                           expected=miss, snippet=snip)
                      if not supplied:
                          want_n = (len(pos) + len(neg)) if nbp is None else nbp
                          if len(th) != want_n:
                              ctx.fail("default-curve-length", case, observed=len(th), expected=want_n, snippet=snip)
                      # derived views
                      if not (np.array_equal(np.asarray(r.tpr), 1.0 - fnr, equal_nan=True)
                              and np.array_equal(np.asarray(r.tnr), 1.0 - fpr, equal_nan=True)
                              and np.array_equal(np.asarray(r.frr), fnr, equal_nan=True)
                              and np.array_equal(np.asarray(r.far), fpr, equal_nan=True)
                              and np.array_equal(np.asarray(r.tar), np.asarray(r.tpr), equal_nan=True)
                              and np.array_equal(np.asarray(r.trr), np.asarray(r.tnr), equal_nan=True)):
                          ctx.fail("derived-views", case, observed="mismatch", expected="complements/aliases", snippet=snip)
                      # the curve's arrays are the caller's: overwriting them must not reach the Scores object
                      for a_ in (r.thresholds, r.fnr, r.fpr):
                          if isinstance(a_, np.ndarray) and a_.flags.writeable and a_.size:
                              a_[...] = 111
                      if not (np.array_equal(np.asarray(s.pos), pos_keep) and np.array_equal(np.asarray(s.neg), neg_keep)):
                          ctx.fail("returned-curve-does-not-alias-the-scores", case, observed=[s.pos, s.neg], expected=[pos_keep, neg_keep])
                          s.pos, s.neg = pos_keep.copy(), neg_keep.copy()
            # unknown axis
            for bad in ("auc", "FPR", ""):
                ctx.tick()
                try:
                    roc(s, x_axis=bad)
                    ctx.fail("unknown-x-axis-raises", dict(base, x_axis=bad), observed="no exception", expected="ValueError")
                except ValueError:
                    pass
                except Exception as e:  # noqa
                    ctx.fail("unknown-x-axis-raises", dict(base, x_axis=bad), observed=repr(e), expected="ValueError")
    ctx.sample({"blocks": item["blocks"], "grid": item["grid"], "pos": pos, "neg": neg,
                "menus": {"rates": b["rate_menu"], "thresholds": [None, "3 unsorted finite", "[inf]"],
                          "nb_points": b["nb_points"], "axes": AXES}})
    return None

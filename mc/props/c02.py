"""C02 - threshold setting round-trips within one sample; its methods are coherent."""
from mc import ordertypes as ot
from mc.props import thresh_common as tc

ID = "C02"
TITLE = "Threshold setting round-trips within one sample; its methods are coherent"
ENGINE = "order-type-explorer"
RULE = (
    "state = (order type, concretisation, cfg, easy counts); transition = one (state, metric, target, method) "
    "threshold_at_* call composed with the object's own rate method; non-trivial = target strictly inside the "
    "achievable range and off the k/N grid, or the relevant class has ties; distinct by construction"
)
ASSUMPTIONS = [
    "the object's own rate methods are the yardstick (their correctness is C01's business)",
    "thresholds compared up to 4 ulp of the largest relevant score magnitude; rates to 1/N + 1e-9",
    "scores of moderate magnitude (grids within [-64,64]); continuous target r replaced by the complete "
    "quarter-grid alphabet (k+{0,1/4,1/2,3/4})/N plus out-of-range and two off-grid values",
]
CLAUSES = {"roundtrip", "coherence", "monotone", "vector"}


def bounds(tier):
    if tier == "quick":
        return {"max_pos": 3, "max_neg": 3, "easy": [[0, 0], [2, 0], [0, 3], [1, 2]],
                "grids": ["irregular", "dyadic", "int", "mixed", "uint"], "targets": "quarter grid + out-of-range + off-grid",
                "methods": tc.METHODS, "metrics": tc.METRICS}
    return {"max_pos": 4, "max_neg": 4, "easy": [[a, b] for a in range(4) for b in range(4)],
            "grids": ["irregular", "dyadic", "int", "negated", "ulp", "mixed", "float32", "uint"],
            "targets": "quarter grid + out-of-range + off-grid", "methods": tc.METHODS, "metrics": tc.METRICS}


def work(tier, seed):
    b = bounds(tier)
    items = []
    for bl in ot.order_types(b["max_pos"], b["max_neg"]):
        if not bl:
            continue
        for gi, kind in enumerate(b["grids"]):
            items.append({"blocks": [list(x) for x in bl], "grid": kind, "scalars": gi == 0, "mutated": gi == 0})
        # classes stored in different dtypes, the narrower one unable to hold the other's values (small order types in quick)
        if tier != "quick" or sum(a + c for a, c in bl) <= 4:
            for kind in ot.MIXED_KINDS[1:] + ["unit"]:
                items.append({"blocks": [list(x) for x in bl], "grid": kind, "scalars": False, "mutated": False})
    for n in (ot.LADDER_QUICK[:5] if tier == "quick" else ot.LADDER_THOROUGH[:-1]):
        for tf in (True, False):
            items.append({"ladder": n, "tie_free": tf, "scalars": False})
    return items


def run(item, ctx, tier, seed):
    b = bounds(tier)
    easy = [tuple(e) for e in b["easy"]]
    if "ladder" in item:
        easy = [(0, 0), (3, 5)]
    clauses = set(CLAUSES)
    tc.explore(item, ctx, seed, easy, clauses)

"""C16 - ROC confidence bands are well-formed envelopes of pointwise rectangles."""

from __future__ import annotations

import itertools
import math

import numpy as np

from mc import ordertypes as ot
from mc import refs
from mc import rngtree
from mc.harness import HarnessError, guarded

ID = "C16"
TITLE = "ROC confidence bands are well-formed envelopes of pointwise rectangles"
ENGINE = "order-type-explorer"
TECHNIQUE = ("exhaustive order-type enumeration x sampler answer sequences (identity, all 3^3 menu-sampler sequences, "
             "complete RNG answer tree of the built-in samplers) on the real code vs plain-Python envelope reference")
RULE = (
    "state = (order type, cfg, easy counts, supplied-point menu, nb_points, alpha, bootstrap method, sampler "
    "answer sequence); transition = one band-function call judged for well-formedness and (roc_with_ci, "
    "pointwise_band_ci) against the plain-Python rule-of-three + envelope reference computed from the very "
    "sub-samples the sampler returned; non-trivial = the curve has a point with a rate strictly between 0 and 1 "
    "and the answer sequence is not constant (identity sampler: at least one rule-of-three point and one interior "
    "point); distinct by construction"
)
ASSUMPTIONS = [
    "own-object rate/threshold methods are the yardstick for the curve and for the replicates",
    "a point's own rectangle always belongs to its envelope (documented in _aggregate_rectangles)",
    "rule-of-three width accepted for n = scored or n = all samples of the class; trigger must be rate exactly 0/1",
    "fixed_width_band_ci only with supports spanning the whole curve (nb_points / all scores)",
    "simultaneous_joint_region_ci and fixed_width_band_ci are judged for well-formedness only (no closed form claimed)",
]
SUPPLY = [
    {}, {"fpr": [0.0, 0.5, 1.0]}, {"fnr": [0.3]}, {"thresholds": "mid"}, {"fnr": [0.0, 1.0], "fpr": [0.25]},
    {"thresholds": "all", "fpr": [0.5]},
]
NBP = [None, 4, 6]
ALPHAS = [0.05, 0.5]
METHODS = ["quantile", "bc", "bca"]


def bounds(tier):
    if tier == "quick":
        return {"sizes": [[1, 1], [2, 1], [1, 2], [2, 2], [3, 1]], "easy": [[0, 0], [1, 2], [3, 4]], "supply": len(SUPPLY),
                "nb_points": NBP, "alphas": ALPHAS, "methods": METHODS, "menu_sequences": 27, "builtin_nb_samples": 1,
                "big_sizes": [[5, 1], [1, 6]], "light_sizes": [10, 13, 22, 49, 98, 103], "long_sizes": [1100], "scan_sizes": [2040, 2120]}
    return {"sizes": [[1, 1], [2, 1], [1, 2], [2, 2], [3, 1], [1, 3], [3, 2], [2, 3]], "easy": [[0, 0], [1, 2], [3, 4], [8, 0], [11, 12]],
            "supply": len(SUPPLY), "nb_points": NBP + [9], "alphas": ALPHAS + [0.9], "methods": METHODS,
            "menu_sequences": 27, "builtin_nb_samples": 2,
            "big_sizes": [[5, 1], [1, 6], [10, 1], [1, 13], [14, 1], [2, 15], [7, 2], [22, 1]],
            "light_sizes": list(range(7, 121)), "long_sizes": [1100, 2100], "scan_sizes": [2040, 3700]}


def work(tier, seed):
    b = bounds(tier)
    items = []
    k = 0
    for P, Q in b["sizes"]:
        for bl in ot._blocks_exact(P, Q):
            for ep, en in b["easy"]:
                items.append({"blocks": [list(x) for x in bl], "easy": [ep, en], "rot": k})
                k += 1
    # larger classes (the rounding of (n-1)/n in the rule-of-three trigger depends on n): tie-free order types only
    for P, Q in b["big_sizes"]:
        # all tie-free interleavings of P positives and Q negatives, generated directly (choose the places of the
        # smaller class; enumerating every order type up to that size and filtering would need gigabytes)
        def _interleavings(P_, Q_):
            for places in itertools.combinations(range(P_ + Q_), Q_):
                ps = set(places)
                yield tuple((0, 1) if i in ps else (1, 0) for i in range(P_ + Q_))

        for bl in _interleavings(P, Q):
            items.append({"blocks": [list(x) for x in bl], "easy": [0, 0], "rot": k})
            k += 1
    # much larger classes, light mode (identity sampler, all scores as support): the float comparisons in the
    # rule-of-three trigger depend on the class size (1/n, (n-1)/n, p*n), e.g. n = 49, 98, 103, 107
    for n in b["light_sizes"]:
        for split in (0, 1, n // 2, n - 1, n):
            for ep, en in ((0, 0), (1, 0)):
                items.append({"light": True, "n": n, "split": split, "easy": [ep, en], "rot": k})
                k += 1
    # curves with more than 1024 / 2048 support points (one configuration each: the band code is quadratic)
    for n in b.get("long_sizes", []):
        for split in (0, n // 2):
            for which in ("pos", "neg"):
                items.append({"light": True, "long": which, "n": n, "split": split, "easy": [0, 0], "rot": k})
                k += 1
    # every curve length in a contiguous range beyond 2048 points (blocked / vectorised aggregation may depend on
    # arithmetic relations between the length and a block size): exact envelope clause only
    lo_n, hi_n = b.get("scan_sizes", [2040, 2120])
    for n in range(lo_n, hi_n + 1):
        items.append({"light": True, "scan": True, "long": "pos" if n % 2 else "neg", "n": n, "split": n // 3, "easy": [0, 0], "rot": k})
        k += 1
    return items


def _supply_kwargs(spec, vals):
    kw = {}
    for k, v in spec.items():
        if k == "thresholds":
            if v == "mid":
                v = [float(vals[0]) - 0.5, (float(vals[0]) + float(vals[-1])) / 2 + 0.125, float(vals[-1])]
            else:
                v = [float(x) for x in vals]
        kw[k] = np.array(v, dtype=float)
    return kw


def rule_of_three(p, ci, alpha, n_options):
    """Accept set: list of admissible (lo, hi) for one point."""
    if p == 0.0:
        return [(0.0, 1 - math.pow(alpha, 1 / n)) for n in n_options]
    if p == 1.0:
        return [(math.pow(alpha, 1 / n), 1.0) for n in n_options]
    return [tuple(ci)]


def envelope(x, dx, dy, slack=0.0):
    """
    Plain-Python envelope: own rectangle plus every rectangle whose x-range covers x[i].
    slack > 0 also counts rectangles that miss x[i] by less than slack, slack < 0 only those that cover it
    with that margin (the envelope is discontinuous in the interval end points, which are interpolated
    quantiles: a one-ulp difference in an end point must not decide the verdict).
    """
    out = []
    if len(x) > 400:  # same definition, one vectorised membership test per point (long curves)
        xs, dxa, dya = np.asarray(x, dtype=float), np.asarray(dx, dtype=float), np.asarray(dy, dtype=float)
        for i in range(len(xs)):
            inside = (dxa[:, 0] - slack <= xs[i]) & (xs[i] <= dxa[:, 1] + slack)
            out.append((min(dy[i][0], float(np.min(dya[inside, 0], initial=np.inf))),
                        max(dy[i][1], float(np.max(dya[inside, 1], initial=-np.inf)))))
        return out
    for i in range(len(x)):
        lo, hi = dy[i][0], dy[i][1]
        for j in range(len(x)):
            if dx[j][0] - slack <= x[i] <= dx[j][1] + slack:
                lo, hi = min(lo, dy[j][0]), max(hi, dy[j][1])
        out.append((lo, hi))
    return out


def reference_bands(src, curve, samples, alpha, method, n_variant):
    """
    Reference for roc_with_ci / pointwise_band_ci given the sub-samples the sampler returned.
    n_variant in {"scored", "all"} selects the rule-of-three n. Returns (fnr_ci, fpr_ci) pointwise and bands.
    """
    fnr, fpr = np.asarray(curve.fnr, dtype=float), np.asarray(curve.fpr, dtype=float)

    def metric(s):
        return (np.asarray(s.fnr(s.threshold_at_fpr(fpr)), dtype=float),
                np.asarray(s.fpr(s.threshold_at_fnr(fnr)), dtype=float))

    est = metric(src)
    reps = [metric(s) for s in samples]
    out = []
    illcond = False
    for which, n_sc, n_all, rates in ((0, len(src.pos), src.nb_all_pos, fnr), (1, len(src.neg), src.nb_all_neg, fpr)):
        n = n_sc if n_variant == "scored" else n_all
        cis = []
        for i in range(len(rates)):
            col = [float(r[which][i]) for r in reps]
            rr = refs.ref_bootstrap_ci(col, float(est[which][i]), alpha, method)
            if rr is None:
                illcond = True
                rr = (math.nan, math.nan)
            cis.append(rule_of_three(float(rates[i]), rr, alpha, [n])[0])
        out.append(cis)
    fnr_ci, fpr_ci = out
    fpr_band = (envelope(fnr.tolist(), fnr_ci, fpr_ci, -1e-9), envelope(fnr.tolist(), fnr_ci, fpr_ci, 1e-9))
    fnr_band = (envelope(fpr.tolist(), fpr_ci, fnr_ci, -1e-9), envelope(fpr.tolist(), fpr_ci, fnr_ci, 1e-9))
    return fnr_ci, fpr_ci, fnr_band, fpr_band, illcond


def wellformed(ctx, case, src, r, unit_interval):
    th = np.asarray(r.thresholds, dtype=float)
    fnr, fpr = np.asarray(r.fnr, dtype=float), np.asarray(r.fpr, dtype=float)
    n = len(th)
    if not (np.array_equal(fnr, np.asarray(src.fnr(th), dtype=float), equal_nan=True)
            and np.array_equal(fpr, np.asarray(src.fpr(th), dtype=float), equal_nan=True)):
        ctx.fail("rates-match-thresholds", case, observed=[fnr, fpr], expected=[src.fnr(th), src.fpr(th)])
    ok = True
    for nm in ("fnr_ci", "fpr_ci"):
        band = getattr(r, nm)
        if band is None or np.asarray(band).shape != (n, 2):
            ctx.fail("band-shape", dict(case, band=nm), observed=None if band is None else list(np.asarray(band).shape),
                     expected=[n, 2])
            ok = False
            continue
        band = np.asarray(band, dtype=float)
        if np.isnan(band).any():
            ctx.fail("band-nan-free", dict(case, band=nm), observed=band, expected="no NaN")
            ok = False
        elif np.any(band[:, 0] > band[:, 1] + 1e-12):
            ctx.fail("band-ordered", dict(case, band=nm), observed=band, expected="lower <= upper")
            ok = False
        elif unit_interval and (np.any(band < -1e-12) or np.any(band > 1 + 1e-12)):
            ctx.fail("band-within-unit-interval", dict(case, band=nm), observed=band, expected="[0,1]")
            ok = False
    return ok


def compare_bands(ctx, case, src, r, samples, alpha, method, pointwise_only=False):
    got_fnr, got_fpr = np.asarray(r.fnr_ci, dtype=float), np.asarray(r.fpr_ci, dtype=float)
    matches = []
    for variant in ("all", "scored"):
        fnr_ci, fpr_ci, fnr_band, fpr_band, ill = reference_bands(src, r, samples, alpha, method, variant)
        if ill:
            ctx.add("bca_pole_skipped")
            return
        if pointwise_only:
            want_fnr = np.array(fnr_ci, dtype=float).reshape(-1, 2)
            want_fpr = np.array(fpr_ci, dtype=float).reshape(-1, 2)
            if (want_fnr.shape == got_fnr.shape and np.allclose(got_fnr, want_fnr, rtol=0, atol=1e-9)
                    and np.allclose(got_fpr, want_fpr, rtol=0, atol=1e-9)):
                return
        else:
            good = True
            for got, (tight, loose) in ((got_fnr, fnr_band), (got_fpr, fpr_band)):
                tight = np.array(tight, dtype=float).reshape(-1, 2)
                loose = np.array(loose, dtype=float).reshape(-1, 2)
                if tight.shape != got.shape:
                    good = False
                    break
                # loose envelope contains the band, the band contains the tight envelope
                if not (np.all(got[:, 0] >= loose[:, 0] - 1e-9) and np.all(got[:, 0] <= tight[:, 0] + 1e-9)
                        and np.all(got[:, 1] <= loose[:, 1] + 1e-9) and np.all(got[:, 1] >= tight[:, 1] - 1e-9)):
                    good = False
                    break
            if good:
                return
            want_fnr, want_fpr = np.array(fnr_band[0], dtype=float), np.array(fpr_band[0], dtype=float)
        matches.append((want_fnr, want_fpr))
    ctx.fail("band-equals-envelope-of-pointwise-rectangles" if not pointwise_only else "pointwise-intervals",
             case, observed=[got_fnr, got_fpr], expected=[matches[0][0], matches[0][1]])


def exact_envelope(ctx, case, src, r_band, alpha, cfgobj, reset=None):
    """
    roc_with_ci against pointwise_band_ci asked for the same thresholds under the same (deterministic) sampler
    answers: both compute the same pointwise intervals at a threshold, so the band must be the envelope - with
    exact comparisons, no slack - of the rectangles pointwise_band_ci returns. (The two functions order and
    extend their supports differently, so points are matched by threshold value; if a threshold of the band is
    not among the pointwise ones the comparison is skipped and counted.)
    """
    from score_analysis.experimental import pointwise_band_ci

    if reset is not None:
        reset()
    th = np.asarray(r_band.thresholds, dtype=float)
    ok, rp = guarded(ctx, "pointwise_band_ci", case, lambda: pointwise_band_ci(src, thresholds=th.copy(), alpha=alpha, config=cfgobj))
    if not ok:
        return
    index = {float(t): k for k, t in enumerate(np.asarray(rp.thresholds, dtype=float).tolist())}
    try:
        sel = [index[float(t)] for t in th.tolist()]
    except KeyError:
        ctx.add("exact_envelope_not_comparable")
        return
    fnr, fpr = np.asarray(r_band.fnr, dtype=float), np.asarray(r_band.fpr, dtype=float)
    pf, pp = np.asarray(rp.fnr_ci, dtype=float)[sel], np.asarray(rp.fpr_ci, dtype=float)[sel]
    if np.isnan(pf).any() or np.isnan(pp).any() or not (np.array_equal(fnr, np.asarray(rp.fnr, dtype=float)[sel])
                                                        and np.array_equal(fpr, np.asarray(rp.fpr, dtype=float)[sel])):
        ctx.add("exact_envelope_not_comparable")
        return
    want_fpr = np.array(envelope(fnr.tolist(), pf.tolist(), pp.tolist()), dtype=float)
    want_fnr = np.array(envelope(fpr.tolist(), pp.tolist(), pf.tolist()), dtype=float)
    got_fnr, got_fpr = np.asarray(r_band.fnr_ci, dtype=float), np.asarray(r_band.fpr_ci, dtype=float)
    ctx.tick()
    ctx.add("exact_envelope_compared")
    for nm, got, want in (("fnr_ci", got_fnr, want_fnr), ("fpr_ci", got_fpr, want_fpr)):
        if got.shape != want.shape or not np.allclose(got, want, rtol=0, atol=1e-12):
            k = int(np.argmax(np.abs(got - want).max(axis=1))) if got.shape == want.shape else -1
            ctx.fail("band-equals-envelope-of-pointwise-rectangles", dict(case, band=nm, point=k, versus="pointwise_band_ci"),
                     observed=got[k] if k >= 0 else list(got.shape), expected=want[k] if k >= 0 else list(want.shape))
            return


def run(item, ctx, tier, seed):
    from score_analysis import BootstrapConfig, Scores
    from score_analysis.experimental import fixed_width_band_ci, pointwise_band_ci, simultaneous_joint_region_ci
    from score_analysis.roc_curve import roc_with_ci

    b = bounds(tier)
    if item.get("light"):
        return _run_light(item, ctx)
    blocks = [tuple(x) for x in item["blocks"]]
    ep, en = item["easy"]
    rot = item["rot"]
    pos, neg, vals = ot.concretise(blocks, "irregular", seed)
    cfgs = ot.CFGS
    for ci_, cfg in enumerate(cfgs):
        sc, ec = cfg
        src = Scores(pos[::-1], neg[::-1], nb_easy_pos=ep, nb_easy_neg=en, score_class=sc, equal_class=ec)
        base = {"pos": pos, "neg": neg, "easy": [ep, en], "cfg": list(cfg)}
        menu = [src,
                Scores([pos[0]] * len(pos), neg, nb_easy_pos=ep + 1, nb_easy_neg=en, score_class=sc, equal_class=ec),
                Scores(pos, [neg[-1]] * len(neg), nb_easy_pos=0, nb_easy_neg=en, score_class=sc, equal_class=ec)]
        # ---------------- identity sampler: closed form, full menu product
        ident = lambda s: s  # noqa: E731
        for si, spec in enumerate(SUPPLY):
            kw = _supply_kwargs(spec, vals)
            for nbp in b["nb_points"]:
                for alpha in b["alphas"]:
                    for method in b["methods"]:
                        case = dict(base, supply=spec, nb_points=nbp, alpha=alpha, method=method, sampler="identity")
                        cfgobj = BootstrapConfig(nb_samples=2, bootstrap_method=method, sampling_method=ident)
                        ctx.state()
                        ok, r = guarded(ctx, "roc_with_ci", case,
                                        lambda: roc_with_ci(src, nb_points=nbp, alpha=alpha, config=cfgobj, **kw))
                        ctx.tick()
                        if not ok:
                            continue
                        fn_, fp_ = np.asarray(r.fnr), np.asarray(r.fpr)
                        interior = np.any((fn_ > 0) & (fn_ < 1)) or np.any((fp_ > 0) & (fp_ < 1))
                        edge = np.any((fn_ == 0) | (fn_ == 1) | (fp_ == 0) | (fp_ == 1))
                        if interior and edge:
                            ctx.nontrivial()
                        ctx.outcome((cfg, si, nbp, alpha, np.round(np.asarray(r.fnr_ci, dtype=float), 9).tobytes()))
                        if wellformed(ctx, case, src, r, True):
                            compare_bands(ctx, case, src, r, [src, src], alpha, method)
                            if alpha == b["alphas"][(si + rot) % len(b["alphas"])]:
                                exact_envelope(ctx, case, src, r, alpha, cfgobj)
        # ---------------- an object with a query history gives the bands a fresh equal object gives
        warmed = Scores(pos[::-1], neg[::-1], nb_easy_pos=ep, nb_easy_neg=en, score_class=sc, equal_class=ec)
        for wname, wcall in (("threshold_at_topr", lambda o: o.threshold_at_topr(0.3)), ("threshold_at_tonr", lambda o: o.threshold_at_tonr(np.array([0.2, 0.6]))),
                             ("threshold_at_acceptance_rate", lambda o: o.threshold_at_acceptance_rate(0.5)), ("eer", lambda o: o.eer()),
                             ("auc", lambda o: o.auc()), ("threshold_at_fnr", lambda o: o.threshold_at_fnr(0.25))):
            guarded(ctx, "warm-up", dict(base, query=wname), wcall, warmed)
        for si, spec in enumerate(SUPPLY[:2]):
            kw = _supply_kwargs(spec, vals)
            alpha, method = b["alphas"][0], b["methods"][(si + rot) % 3]
            cfgobj = BootstrapConfig(nb_samples=2, bootstrap_method=method, sampling_method=ident)
            for fname, f in (("roc_with_ci", roc_with_ci), ("pointwise_band_ci", pointwise_band_ci)):
                case = dict(base, function=fname, supply=spec, alpha=alpha, method=method, sampler="identity",
                            history="topr/tonr/acceptance-rate thresholds, eer, auc, fnr threshold queried first")
                ok1, r1 = guarded(ctx, fname, case, lambda: f(warmed, nb_points=b["nb_points"][0], alpha=alpha, config=cfgobj, **kw))
                ok2, r2 = guarded(ctx, fname, case, lambda: f(src, nb_points=b["nb_points"][0], alpha=alpha, config=cfgobj, **kw))
                ctx.tick()
                ctx.state()
                if ok1 and ok2:
                    for fld in ("thresholds", "fnr", "fpr", "fnr_ci", "fpr_ci"):
                        if not np.array_equal(np.asarray(getattr(r1, fld)), np.asarray(getattr(r2, fld)), equal_nan=True):
                            ctx.fail("bands-independent-of-query-history", dict(case, field=fld), observed=getattr(r1, fld), expected=getattr(r2, fld))
                            break
        # ---------------- experimental functions, identity sampler
        for si, spec in enumerate(SUPPLY):
            kw = _supply_kwargs(spec, vals)
            for nbp in b["nb_points"][:2]:
                alpha = b["alphas"][(si + rot) % len(b["alphas"])]
                method = b["methods"][(si + ci_) % 3]
                cfgobj = BootstrapConfig(nb_samples=2, bootstrap_method=method, sampling_method=ident)
                for fname, f in (("pointwise_band_ci", pointwise_band_ci), ("simultaneous_joint_region_ci", simultaneous_joint_region_ci)):
                    case = dict(base, function=fname, supply=spec, nb_points=nbp, alpha=alpha, method=method, sampler="identity")
                    ctx.state()
                    ok, r = guarded(ctx, fname, case, lambda: f(src, nb_points=nbp, alpha=alpha, config=cfgobj, **kw))
                    ctx.tick()
                    if ok and wellformed(ctx, case, src, r, False) and fname == "pointwise_band_ci":
                        compare_bands(ctx, case, src, r, [src, src], alpha, method, pointwise_only=True)
                if not spec:  # fixed-width bands: supports spanning the whole curve only
                    for smp_name, smp in (("identity", ident), ("menu", None)):
                        seqs = [None] if smp is not None else list(itertools.product(range(3), repeat=2))
                        for seq in seqs:
                            calls = []
                            if smp is None:
                                smp_f = lambda s, _seq=seq, _c=calls: (_c.append(1), menu[_seq[len(_c) - 1]])[1]  # noqa: E731
                            else:
                                smp_f = smp
                            case = dict(base, function="fixed_width_band_ci", nb_points=nbp, alpha=alpha, sampler=smp_name,
                                        sequence=None if seq is None else list(seq))
                            cfg2 = BootstrapConfig(nb_samples=2, sampling_method=smp_f)
                            ctx.state()
                            ok, r = guarded(ctx, "fixed_width_band_ci", case,
                                            lambda: fixed_width_band_ci(src, nb_points=nbp, alpha=alpha, config=cfg2))
                            ctx.tick()
                            if ok:
                                wellformed(ctx, case, src, r, False)
        # ---------------- menu sampler: every answer sequence
        seqs = list(itertools.product(range(3), repeat=3))
        for qi, seq in enumerate(seqs):
            spec = SUPPLY[(qi + rot + ci_) % len(SUPPLY)]
            kw = _supply_kwargs(spec, vals)
            nbp = b["nb_points"][(qi + rot) % len(b["nb_points"])]
            alpha = b["alphas"][(qi + ci_) % len(b["alphas"])]
            method = b["methods"][(qi + rot + ci_) % 3]
            calls = []

            def sampler(s, _seq=seq, _c=calls):
                _c.append(1)
                return menu[_seq[len(_c) - 1]]

            cfgobj = BootstrapConfig(nb_samples=3, bootstrap_method=method, sampling_method=sampler)
            case = dict(base, supply=spec, nb_points=nbp, alpha=alpha, method=method, sampler="menu", sequence=list(seq))
            ctx.state()
            f, fname = (roc_with_ci, "roc_with_ci") if qi % 3 else (pointwise_band_ci, "pointwise_band_ci")
            ok, r = guarded(ctx, fname, case, lambda: f(src, nb_points=nbp, alpha=alpha, config=cfgobj, **kw))
            ctx.tick()
            if not ok:
                continue
            if len(set(seq)) > 1:
                ctx.nontrivial()
            if wellformed(ctx, dict(case, function=fname), src, r, fname == "roc_with_ci"):
                compare_bands(ctx, dict(case, function=fname), src, r, [menu[k] for k in seq], alpha, method,
                              pointwise_only=fname != "roc_with_ci")
                if fname == "roc_with_ci":
                    # the same answer sequence again, for the pointwise intervals
                    exact_envelope(ctx, case, src, r, alpha, cfgobj, reset=lambda _c=calls: _c.clear())
        # ---------------- built-in samplers under the RNG answer tree
        if ci_ == rot % 4 and len(pos) + len(neg) <= 4:
            n_s = b["builtin_nb_samples"]
            for mode, strat in (("replacement", "by_label"), ("replacement", None), ("single_pass", "by_label")):
                if strat is None and len(pos) + len(neg) + ep + en > 4:
                    continue
                spec = SUPPLY[(rot + len(mode)) % len(SUPPLY)]
                kw = _supply_kwargs(spec, vals)
                method = b["methods"][rot % 3]
                cfgobj = BootstrapConfig(nb_samples=n_s, bootstrap_method=method, sampling_method=mode, stratified_sampling=strat)
                case = dict(base, supply=spec, nb_points=4, alpha=0.5, method=method, sampler=mode, stratified=strat)
                leaves, mass = 0, 0.0

                def fn(orc):
                    return roc_with_ci(src, nb_points=4, alpha=0.5, config=cfgobj, **kw)

                try:
                    for orc, r in rngtree.explore(fn, observe=lambda r_: np.asarray(r_.fnr_ci).tobytes(), twice=False):
                        leaves += 1
                        mass += orc.prob
                        ctx.tick()
                        c2 = dict(case, answers=orc.choices)
                        if wellformed(ctx, c2, src, r, True):
                            orc2 = rngtree.Oracle(orc.choices)
                            with rngtree.owned(orc2):
                                samples = [src.bootstrap_sample(cfgobj) for _ in range(n_s)]
                            compare_bands(ctx, c2, src, r, samples, 0.5, method)
                        ctx.nontrivial()
                except rngtree.UnownedRNG as e:
                    raise HarnessError(str(e))
                ctx.state()
                ctx.add("leaves", leaves)
                if abs(mass - 1.0) > 1e-9:
                    ctx.fail("leaf-probabilities-sum-to-one", case, observed=mass, expected=1.0)
    ctx.sample({"pos": pos, "neg": neg, "easy": [ep, en], "supply_menu": SUPPLY, "nb_points": b["nb_points"],
                "alphas": b["alphas"], "methods": b["methods"]})
    return None


def _run_light(item, ctx):
    """One class of n scores with a single score of the other class inserted at position `split`."""
    from score_analysis import BootstrapConfig, Scores
    from score_analysis.experimental import pointwise_band_ci
    from score_analysis.roc_curve import roc_with_ci

    n, split = item["n"], item["split"]
    ep, en = item["easy"]
    big = [float(i) for i in range(n)]
    one = [split - 0.5]
    for which in ("pos", "neg") if "long" not in item else (item["long"],):
        pos, neg = (big, one) if which == "pos" else (one, big)
        for cfg in (ot.CFGS[item["rot"] % 4], ot.CFGS[(item["rot"] + 1) % 4])[: 1 if "long" in item else 2]:
            src = Scores(pos[::-1], neg[::-1], nb_easy_pos=ep, nb_easy_neg=en, score_class=cfg[0], equal_class=cfg[1])
            for alpha, method in ((0.05, "quantile"), (0.5, "bc"))[: 1 if "long" in item else 2]:
                cfgobj = BootstrapConfig(nb_samples=2, bootstrap_method=method, sampling_method=lambda s: s)
                case = {"big_class": which, "n": n, "other_score_at": one[0], "easy": [ep, en], "cfg": list(cfg), "alpha": alpha,
                        "method": method, "sampler": "identity"}
                got = {}
                if item.get("scan"):
                    ctx.state()
                    ok, r = guarded(ctx, "roc_with_ci", case, lambda: roc_with_ci(src, nb_points=None, alpha=alpha, config=cfgobj))
                    ctx.tick()
                    if ok:
                        ctx.nontrivial()
                        case = dict(case, curve_points=int(len(np.asarray(r.thresholds))))
                        exact_envelope(ctx, case, src, r, alpha, cfgobj)
                    continue
                for fname, f in (("roc_with_ci", roc_with_ci), ("pointwise_band_ci", pointwise_band_ci)):
                    ctx.state()
                    ok, r = guarded(ctx, fname, case, lambda: f(src, nb_points=None, alpha=alpha, config=cfgobj))
                    ctx.tick()
                    if ok and wellformed(ctx, dict(case, function=fname), src, r, fname == "roc_with_ci"):
                        ctx.nontrivial()
                        got[fname] = r
                        compare_bands(ctx, dict(case, function=fname), src, r, [src, src], alpha, method,
                                      pointwise_only=fname != "roc_with_ci")
                if "roc_with_ci" in got:
                    exact_envelope(ctx, case, src, got["roc_with_ci"], alpha, cfgobj)
    ctx.sample({"kind": "light", "n": n, "split": split, "easy": [ep, en]})
    return None


def _m_fwb(rec):
    """D10: fixed_width_band_ci cannot bracket the tube radius."""
    return (rec["clause"] == "unexpected-exception:fixed_width_band_ci"
            and "Could not initialise search for displacement" in str(rec.get("observed")))


MATCHERS = {"c16_fwb_bracket": _m_fwb}

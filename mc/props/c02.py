"""C02 - threshold setting round-trips within one sample; its methods are coherent."""
import numpy as np

from mc import ordertypes as ot
from mc.props import thresh_common as tc

ID = "C02"
TITLE = "Threshold setting round-trips within one sample; its methods are coherent"
ENGINE = "order-type-explorer"
RULE = (
    "state = (order type, concretisation, cfg, easy counts); transition = one (state, metric, target, method) "
    "threshold_at_* call composed with the object's own rate method; non-trivial = target strictly inside the "
    "achievable range and off the k/N grid, or the relevant class has ties; distinct by construction"
)
ASSUMPTIONS = [
    "the object's own rate methods are the yardstick (their correctness is C01's business)",
    "thresholds compared up to 4 ulp of the largest relevant score magnitude; rates to 1/N + 1e-9",
    "scores of moderate magnitude (grids within [-64,64]); continuous target r replaced by the complete "
    "quarter-grid alphabet (k+{0,1/4,1/2,3/4})/N plus out-of-range and two off-grid values",
]
CLAUSES = {"roundtrip", "coherence", "monotone", "vector"}


def bounds(tier):
    if tier == "quick":
        return {"max_pos": 3, "max_neg": 3, "easy": [[0, 0], [2, 0], [0, 3], [1, 2]],
                "grids": ["irregular", "dyadic", "int", "mixed", "uint"], "targets": "quarter grid + out-of-range + off-grid",
                "methods": tc.METHODS, "metrics": tc.METRICS}
    return {"max_pos": 4, "max_neg": 4, "easy": [[a, b] for a in range(4) for b in range(4)],
            # (no one-ulp grid: a threshold interpolated between adjacent floats cannot separate them, and the property
            # itself compares thresholds "up to a few ulp"; C03's exact extremes are checked on that grid)
            "grids": ["irregular", "dyadic", "int", "negated", "mixed", "float32", "uint"],
            "targets": "quarter grid + out-of-range + off-grid", "methods": tc.METHODS, "metrics": tc.METRICS}


def work(tier, seed):
    b = bounds(tier)
    items = []
    for bl in ot.order_types(b["max_pos"], b["max_neg"]):
        if not bl:
            continue
        big_ = tier != "quick" and sum(a + c for a, c in bl) > 6  # thorough: the 4,600 larger order types on three grids, small easy menu
        for gi, kind in enumerate(b["grids"]):
            if big_ and kind not in ("irregular", "int", "uint"):
                continue
            items.append({"blocks": [list(x) for x in bl], "grid": kind, "scalars": gi == 0 and not big_, "mutated": gi == 0 and not big_, "big": big_})
        # classes stored in different dtypes, the narrower one unable to hold the other's values (small order types in quick)
        if tier != "quick" or sum(a + c for a, c in bl) <= 4:
            for kind in ot.MIXED_KINDS[1:] + ["unit"]:
                items.append({"blocks": [list(x) for x in bl], "grid": kind, "scalars": False, "mutated": False})
    for n in (ot.LADDER_QUICK[:5] if tier == "quick" else ot.LADDER_THOROUGH[:-1]):
        for tf in (True, False):
            items.append({"ladder": n, "tie_free": tf, "scalars": False})
    # several hundred thousand scores with the classes in different dtypes (size thresholds of merge / sort paths):
    # judged against a bisect-based counting model at a dozen targets per metric
    for long_dtype, short_dtype in (("int64", "float64"), ("float32", "float64"), ("float64", "float64")):
        items.append({"huge": 300_000, "long_dtype": long_dtype, "short_dtype": short_dtype})
    return items


def _run_huge(item, ctx, seed):
    import bisect

    from mc import refs
    from mc.harness import guarded
    from score_analysis import Scores

    n = item["huge"]
    nl, ns = 2 * n // 3, n // 3
    ldt, sdt = np.dtype(item["long_dtype"]), np.dtype(item["short_dtype"])
    # long class: few distinct values when it is an integer class (0/1 scores), a fine grid otherwise; short class: floats in (0,1)
    if ldt.kind == "i":
        long_vals = (np.arange(nl) * 7 % 2).astype(ldt)
    else:
        long_vals = (((np.arange(nl) * 7919) % 100003) / 100003.0).astype(ldt)
    short_vals = ((((np.arange(ns) * 104729) % 99991) + 0.5) / 99991.0).astype(sdt)
    for long_is in ("pos", "neg"):
        pos, neg = (long_vals, short_vals) if long_is == "pos" else (short_vals, long_vals)
        spos, sneg = sorted(float(v) for v in pos.tolist()), sorted(float(v) for v in neg.tolist())
        for cfg in (ot.CFGS[0], ot.CFGS[3]):
            case = {"huge": n, "long_class": long_is, "long_dtype": ldt.name, "short_dtype": sdt.name, "cfg": cfg}
            ok, s = guarded(ctx, "construct", case, Scores, pos.copy(), neg.copy(), score_class=cfg[0], equal_class=cfg[1])
            if not ok:
                continue
            ctx.state()
            targets = np.array([0.0, 0.05, 0.3333, 0.4, 0.45, 0.5, 0.55, 0.6, 0.9, 1.0])
            for metric in tc.METRICS:
                ok, th = guarded(ctx, "setter-array", dict(case, metric=metric), lambda: np.asarray(getattr(s, "threshold_at_" + metric)(targets), dtype=float))
                ctx.tick(len(targets))
                if not ok:
                    continue
                N = {"tpr": nl if long_is == "pos" else ns, "fnr": nl if long_is == "pos" else ns, "tnr": ns if long_is == "pos" else nl,
                     "fpr": ns if long_is == "pos" else nl}.get(metric, n)
                for r, t in zip(targets.tolist(), th.tolist()):
                    ctx.nontrivial()
                    # the metric just below and just above the returned threshold brackets r to one sample (ties: the 0/1 class)
                    vals = []
                    for tt in (tc.step(t, -4), t, tc.step(t, 4)):
                        vals.append(float(refs.ref_rates(refs.ref_cm_sorted(spos, sneg, tt, cfg[0], cfg[1]))[metric]))
                    lo_, hi_ = min(vals), max(vals)
                    if not (lo_ - 1.0 / N - 1e-12 <= r <= hi_ + 1.0 / N + 1e-12):
                        ctx.fail("bracket-within-one-sample", dict(case, metric=metric, r=r), observed={"threshold": t, "metric_around": vals}, expected=r)
                        break
    ctx.sample({"huge": n, "long_dtype": ldt.name, "short_dtype": sdt.name})
    return None


def run(item, ctx, tier, seed):
    if "huge" in item:
        return _run_huge(item, ctx, seed)
    b = bounds(tier)
    easy = [tuple(e) for e in b["easy"]]
    if "ladder" in item:
        easy = [(0, 0), (3, 5)]
    if item.get("big"):
        easy = [(0, 0), (1, 2)]
    clauses = set(CLAUSES)
    tc.explore(item, ctx, seed, easy, clauses)

"""C03 - extreme operating points are honoured exactly."""
from mc import ordertypes as ot
from mc.props import thresh_common as tc

ID = "C03"
TITLE = "Extreme operating points are honoured exactly"
ENGINE = "order-type-explorer"
RULE = (
    "state = (order type, concretisation, cfg, easy counts); transition = one (state, metric, extreme target, "
    "method) threshold_at_* call whose metric value is compared exactly with the metric's lowest/highest "
    "achievable value M(-inf)/M(+inf); non-trivial = relevant class has ties or a single score, or easy samples "
    "are present (the cases where rounding/shift matter) - counted; distinct by construction"
)
ASSUMPTIONS = [
    "lowest/highest achievable value of a metric = its value at -inf/+inf as computed by the same object",
    "targets r in {-0.5, -1e-9, 0, 1, 1+1e-9, 1.5}",
]


def bounds(tier):
    if tier == "quick":
        return {"max_pos": 3, "max_neg": 3, "easy": [[a, b] for a in range(4) for b in range(4)],
                "grids": ["irregular", "dyadic", "int"], "targets": tc.EXTREME_TARGETS}
    return {"max_pos": 5, "max_neg": 5, "easy": [[a, b] for a in (0, 1, 2, 3, 7) for b in (0, 1, 2, 3, 7)],
            "grids": ["irregular", "dyadic", "int", "negated", "ulp"], "targets": tc.EXTREME_TARGETS}


def work(tier, seed):
    b = bounds(tier)
    items = []
    for bl in ot.order_types(b["max_pos"], b["max_neg"]):
        if not bl:
            continue
        for kind in b["grids"]:
            if kind == "ulp" and sum(a + c for a, c in bl) > 8:
                continue
            items.append({"blocks": [list(x) for x in bl], "grid": kind, "scalars": False})
    return items


def run(item, ctx, tier, seed):
    b = bounds(tier)
    tc.explore(item, ctx, seed, [tuple(e) for e in b["easy"]], {"extremes"})

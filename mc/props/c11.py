"""C11 - bootstrap samples are well-formed resamples of their source."""

from __future__ import annotations

import itertools
import math

import numpy as np

from mc import ordertypes as ot
from mc import refs
from mc import rngtree
from mc.harness import HarnessError, REPO, guarded

ID = "C11"
TITLE = "Bootstrap samples are well-formed resamples of their source"
ENGINE = "rng-answer-tree"
RULE = (
    "state = one leaf of the RNG answer tree of bootstrap_sample for one (source order type, easy counts, cfg, "
    "sampling method, stratification, smoothing); transition = one bootstrap_sample execution under the answer "
    "oracle, judged leaf-wise (well-formedness) and tree-wise (exact outcome distribution vs the unbiased "
    "reference sampler; leaf probabilities sum to 1); non-trivial = leaves in which the sample differs from the "
    "source as a multiset; distinct by construction (each answer sequence once)"
)
ASSUMPTIONS = [
    "every entropy source reachable from score_analysis is owned: static AST scan + trap on all other numpy.random "
    "entry points; NumPy's generators themselves are trusted",
    "complete trees only for sources with <= (2,2) scores (+(3,1),(1,3)) quick / (3,3) thorough; at the dynamic "
    "switch (99..101 scores) exploration is deviation-bounded (d<=1 quick, 2 thorough) over reduced answer menus",
    "smoothing noise discretised to {loc, loc+-2*scale}; Poisson answers truncated to 0..3 (mass not claimed there)",
    "single pass: unbiasedness decided by exchangeability of multiplicities within a class (whole tree, exact) "
    "and by the means of the requested per-score multiplicity distributions (request level, any family)",
]


def exhaustive(tier):
    # the answer trees of the small sources are enumerated completely (leaf mass = 1 is checked), but the
    # exploration at the dynamic switch (~100 scores per class) is deviation-bounded, i.e. capped
    return False


def bounds(tier):
    if tier == "quick":
        return {"sizes": [[1, 1], [2, 1], [1, 2], [2, 2], [1, 0], [0, 2], [3, 1]], "easy": [[0, 0], [1, 0], [0, 2], [1, 2]],
                "ratios": [0.5, 0.34, 0.99], "switch_sizes": [99, 100, 101], "deviations": 1,
                "strata_easy": list(range(0, 61))}
    # The thorough tier keeps the quick tier's trees and adds more proportions / sizes and one larger real-RNG source: the
    # deeper bounds tried first (complete trees of 3+3 scores with 3+3 easy samples, two deviations at the switch sizes,
    # 20,000 / 70,000-score proportion runs) did not finish within 45, 30 and 15 minutes.
    return {"sizes": [[1, 1], [2, 1], [1, 2], [2, 2], [1, 0], [0, 2], [3, 1]], "easy": [[0, 0], [1, 0], [0, 2], [1, 2]],
            "ratios": [0.5, 0.34, 0.99, 0.67], "switch_sizes": [99, 100, 101], "deviations": 1,
            "strata_easy": list(range(0, 61))}


def work(tier, seed):
    b = bounds(tier)
    items = []
    k = 0
    for P, Q in b["sizes"]:
        for bl in ot._blocks_exact(P, Q):
            for ep, en in b["easy"]:
                cfg = ot.CFGS[k % 4]
                k += 1
                heavy = P + Q + ep + en >= 6
                items.append({"kind": "tree", "blocks": [list(x) for x in bl], "easy": [ep, en], "cfg": cfg,
                              "heavy": heavy})
                if not heavy and ep + en > 0:
                    items.append({"kind": "tree", "blocks": [list(x) for x in bl], "easy": [ep, en], "cfg": cfg, "heavy": False,
                                  "history": True})
    # stratified sampling with many easy samples: the four strata must be preserved exactly for every
    # (hard, easy) count pair (their quotient is rounding-sensitive); by_label trees are small
    for hp_, hn_ in ((1, 1), (2, 1), (3, 2), (4, 1)):
        for e in b["strata_easy"]:
            items.append({"kind": "strata", "hp": hp_, "hn": hn_, "easy": [e, (e * 7) % 11]})
    for hp_, hn_ in ((1, 1), (2, 1), (1, 2)):
        items.append({"kind": "two_samples", "hp": hp_, "hn": hn_})
    for part in range(8):
        items.append({"kind": "proportion_sizes", "part": part, "parts": 8})
    for sizes in ([40000, 50], [300, 66000], [1000, 1000]) + (([70000, 70000],) if tier == "thorough" else ()):
        items.append({"kind": "large_real", "sizes": list(sizes)})
    # the same samples reached through bootstrap_metric / bootstrap_ci, and option strings held in every way
    for sizes in ([3, 4], [150, 130], [100, 260], [99, 150]):
        items.append({"kind": "entry_points", "sizes": list(sizes)})
    for hp in b["switch_sizes"]:
        for hn in b["switch_sizes"]:
            for smoothing in (False, True):
                items.append({"kind": "switch", "hp": hp, "hn": hn, "smoothing": smoothing})
    items.append({"kind": "ownership"})
    # cheap items first keeps counterexamples small; heavy trees last
    items.sort(key=lambda it: (it["kind"] != "ownership", it["kind"] == "switch", it.get("heavy", False)))
    return items


# --------------------------------------------------------------------------- #
# the unbiased reference sampler (corrections switched off), replacement sampling
# --------------------------------------------------------------------------- #
def _binom(n, p):
    return {k: v for k, v in rngtree._binom_pmf(n, p)}


def _multiset_dist(values, k):
    """Distribution of the sorted value multiset of k uniform picks (with replacement) from `values`."""
    H = len(values)
    if k == 0:
        return {(): 1.0}
    if H == 0:
        return None  # impossible: cannot draw from an empty class
    out = {}
    for counts in itertools.product(range(k + 1), repeat=H):
        if sum(counts) != k:
            continue
        coef = math.factorial(k)
        for c in counts:
            coef //= math.factorial(c)
        key = tuple(sorted(v for v, c in zip(values, counts) for _ in range(c)))
        out[key] = out.get(key, 0.0) + coef / H**k
    return out


def model_replacement(pos, neg, ep, en, by_label):
    """
    Outcome distribution {(pos multiset, neg multiset, easy_pos, easy_neg): mass} of the documented
    replacement protocol on the paths where no at-least-one correction would fire.
    """
    Hp, Hn = len(pos), len(neg)
    Ap, An = Hp + ep, Hn + en
    N = Ap + An
    out = {}
    if by_label:
        strata = {(Hp, ep, Hn, en): 1.0}
    else:
        strata = {}
        ratio = Ap / N if N else 0.0
        e_pos = ep / Ap if ep else 0.0
        e_neg = en / An if en else 0.0
        for nb_pos, p1 in _binom(N, ratio).items():
            nb_neg = N - nb_pos
            if (nb_pos == 0 and Ap > 0) or (nb_neg == 0 and An > 0):
                continue
            for a, p2 in _binom(nb_pos, e_pos).items():
                for c, p3 in _binom(nb_neg, e_neg).items():
                    hp_, hn_ = nb_pos - a, nb_neg - c
                    if (hp_ == 0 and Hp > 0) or (hn_ == 0 and Hn > 0):
                        continue
                    key = (hp_, a, hn_, c)
                    strata[key] = strata.get(key, 0.0) + p1 * p2 * p3
    for (hp_, a, hn_, c), ps in strata.items():
        dp, dn = _multiset_dist(pos, hp_), _multiset_dist(neg, hn_)
        if dp is None or dn is None:
            continue
        for kp, pp in dp.items():
            for kn, pn in dn.items():
                key = (kp, kn, a, c)
                out[key] = out.get(key, 0.0) + ps * pp * pn
    return out


# --------------------------------------------------------------------------- #
def _outcome(sample):
    return (tuple(sorted(map(float, sample.pos))), tuple(sorted(map(float, sample.neg))),
            int(sample.nb_easy_pos), int(sample.nb_easy_neg))


def _wellformed(ctx, case, src, sample, pos, neg, ep, en, cfg, method, strat, smoothing, ratio=None):
    """Leaf-level clauses. Returns the outcome key."""
    sc, ec = cfg
    spos, sneg = np.asarray(sample.pos, dtype=float), np.asarray(sample.neg, dtype=float)
    if not (sample.score_class == sc and sample.equal_class == ec):
        ctx.fail("flags-kept", case, observed=[str(sample.score_class), str(sample.equal_class)], expected=list(cfg))
    if not smoothing:
        if not (set(spos.tolist()) <= set(map(float, pos)) and set(sneg.tolist()) <= set(map(float, neg))):
            ctx.fail("scores-from-same-class", case, observed=[spos, sneg], expected=[pos, neg])
    if np.any(np.diff(spos) < 0) or np.any(np.diff(sneg) < 0):
        ctx.fail("sample-internally-ordered", case, observed=[spos, sneg], expected="ascending arrays")
    else:
        vals = sorted(set(spos.tolist()) | set(sneg.tolist()))
        T = ot.threshold_alphabet(vals)[:: max(1, len(vals) // 2)] if vals else [0.0]
        got = sample.cm(np.array(T)).matrix.tolist()
        for t, g in zip(T, got):
            r = refs.ref_cm(spos.tolist(), sneg.tolist(), t, sc, ec, int(sample.nb_easy_pos), int(sample.nb_easy_neg))
            if g != r:
                ctx.fail("sample-metrics-equal-direct-counting", dict(case, threshold=t), observed=g, expected=r)
                break
    if len(pos) and not len(spos):
        ctx.fail("at-least-one-scored-positive", case, observed=spos, expected=">=1")
    if len(neg) and not len(sneg):
        ctx.fail("at-least-one-scored-negative", case, observed=sneg, expected=">=1")
    n_src = len(pos) + len(neg) + ep + en
    n_smp = len(spos) + len(sneg) + int(sample.nb_easy_pos) + int(sample.nb_easy_neg)
    if min(sample.nb_easy_pos, sample.nb_easy_neg) < 0:
        ctx.fail("easy-counts-non-negative", case, observed=[sample.nb_easy_pos, sample.nb_easy_neg], expected=">=0")
    if method == "replacement":
        if n_smp != n_src:
            ctx.fail("replacement-preserves-total-count", case, observed=n_smp, expected=n_src)
        if strat == "by_label":
            got = [len(spos), int(sample.nb_easy_pos), len(sneg), int(sample.nb_easy_neg)]
            if got != [len(pos), ep, len(neg), en]:
                ctx.fail("by-label-preserves-strata", case, observed=got, expected=[len(pos), ep, len(neg), en])
    if method == "single_pass" and strat == "by_label":
        if [int(sample.nb_easy_pos), int(sample.nb_easy_neg)] != [ep, en]:
            ctx.fail("by-label-preserves-strata", case, observed=[sample.nb_easy_pos, sample.nb_easy_neg], expected=[ep, en])
    if method == "proportion":
        want = [max(int(ratio * len(pos)), 1), int(ratio * ep), max(int(ratio * len(neg)), 1), int(ratio * en)]
        got = [len(spos), int(sample.nb_easy_pos), len(sneg), int(sample.nb_easy_neg)]
        if got != want:
            ctx.fail("proportion-sizes", case, observed=got, expected=want)
        for smp, srcv in ((spos, pos), (sneg, neg)):
            for v in set(smp.tolist()):
                if smp.tolist().count(v) > list(map(float, srcv)).count(v):
                    ctx.fail("proportion-without-replacement", case, observed=smp, expected=srcv)
                    break
    return _outcome(sample)


def _multiplicity_requests(orc, Hp, Hn):
    """Batched per-score multiplicity requests [(class size, [means...])] in request order."""
    batches = {}
    for kind, params, menu, c in orc.trace:
        if kind == "binomial" and len(params) == 4:
            batches.setdefault(params[2], []).append(params[0] * params[1])
        elif kind == "poisson" and len(params) == 3 and params[1]:
            batches.setdefault(params[1], []).append(params[0])
    return [v for _, v in sorted(batches.items())]


def run(item, ctx, tier, seed):
    from score_analysis import BootstrapConfig, Scores

    b = bounds(tier)
    if item["kind"] == "ownership":
        used = rngtree.assert_owned(REPO)
        ctx.state()
        ctx.tick()
        ctx.extra["cov_rng_entry_points_used_by_library"] = used
        # every other entry point is trapped
        with rngtree.owned(rngtree.Oracle()):
            try:
                np.random.uniform()
                ctx.fail("harness-self-test", {}, observed="np.random.uniform not trapped", expected="trap")
            except rngtree.UnownedRNG:
                pass
        return None

    if item["kind"] == "switch":
        return _run_switch(item, ctx, b)
    if item["kind"] == "strata":
        return _run_strata(item, ctx)
    if item["kind"] == "two_samples":
        return _run_two_samples(item, ctx)
    if item["kind"] == "proportion_sizes":
        return _run_proportion_sizes(item, ctx, tier)
    if item["kind"] == "entry_points":
        return _run_entry_points(item, ctx, seed)
    if item["kind"] == "large_real":
        return _run_large_real(item, ctx, seed)

    blocks = [tuple(x) for x in item["blocks"]]
    ep, en = item["easy"]
    cfg = tuple(item["cfg"])
    sc, ec = cfg
    # two concretisations: values shared across classes as the order type says, input unsorted
    pos, neg, vals = ot.concretise(blocks, "irregular", seed)
    pin, nin = pos[::-1], neg[::-1]
    both = bool(pos) and bool(neg)
    src = Scores(pin, nin, nb_easy_pos=ep, nb_easy_neg=en, score_class=sc, equal_class=ec)
    if item.get("history"):
        # the source declared other easy counts, was sampled from under every method, and was then given these counts
        # through its public attributes (array lengths unchanged): it is the source described by its current state
        src = Scores(pin, nin, nb_easy_pos=ep + 3, nb_easy_neg=en + 1, score_class=sc, equal_class=ec)
        warm = rngtree.Oracle((), 4000, cycle_uniform=True)
        with rngtree.owned(warm):
            for m_, st_ in (("replacement", None), ("replacement", "by_label"), ("single_pass", None)):
                if pos and neg or m_ == "replacement":
                    try:
                        src.bootstrap_sample(BootstrapConfig(sampling_method=m_, stratified_sampling=st_))
                    except Exception:  # noqa - judged below on the re-assigned object, not here
                        pass
        src.nb_easy_pos, src.nb_easy_neg = ep, en
    configs = [("replacement", None, False), ("replacement", "by_label", False), ("dynamic", None, False)]
    if both:
        configs += [("single_pass", "by_label", False), ("single_pass", None, False)]
        if len(pos) + len(neg) <= 3:
            configs += [("replacement", "by_label", True), ("dynamic", "by_label", True)]
        configs += [("proportion", None, r) for r in b["ratios"]]
        configs += [("callable", None, False)]
    for method, strat, extra in configs:
        smoothing = extra is True
        ratio = extra if method == "proportion" else None
        if item["heavy"] and method == "single_pass" and strat is None and (ep, en) not in ((0, 0), (1, 2)):
            continue
        case = {"pos": pos, "neg": neg, "easy": [ep, en], "cfg": list(cfg), "method": method, "stratified": strat,
                "smoothing": smoothing, "ratio": ratio}
        if item.get("history"):
            case["history"] = "sampled with easy counts (+3, +1), then nb_easy_pos / nb_easy_neg re-assigned"
        if method == "callable":
            marker = Scores([1.0], [0.0])
            cfgobj = BootstrapConfig(sampling_method=lambda s: marker)
        else:
            cfgobj = BootstrapConfig(sampling_method=method, stratified_sampling=strat, smoothing=smoothing, ratio=ratio)
        eff = "replacement" if method == "dynamic" else method

        def fn(orc):
            return src.bootstrap_sample(cfgobj)

        dist, mass, leaves, nondet, exact = {}, 0.0, 0, 0, True
        cnt_p, cnt_n = {}, {}
        sizes = [0.0, 0.0, 0.0, 0.0]
        ctx.state()
        try:
            for orc, sample in rngtree.explore(fn, observe=_outcome, twice=True):
                leaves += 1
                ctx.tick()
                if orc.nondeterministic:
                    nondet += 1
                exact = exact and orc.exact
                if method == "callable":
                    if sample is not marker:
                        ctx.fail("callable-sampler-result-returned", case, observed=repr(sample), expected="the sampler's object")
                    if orc.trace:
                        ctx.fail("callable-sampler-consumes-no-randomness", case, observed=orc.requests(), expected=[])
                    mass += orc.prob
                    continue
                key = _wellformed(ctx, dict(case, answers=orc.choices), src, sample, pos, neg, ep, en, cfg, eff, strat,
                                  smoothing, ratio)
                if key[:2] != (tuple(sorted(map(float, pos))), tuple(sorted(map(float, neg)))):
                    ctx.nontrivial()
                mass += orc.prob
                dist[key] = dist.get(key, 0.0) + orc.prob
                for v in key[0]:
                    cnt_p[v] = cnt_p.get(v, 0.0) + orc.prob
                for v in key[1]:
                    cnt_n[v] = cnt_n.get(v, 0.0) + orc.prob
                for j, x in enumerate((len(key[0]), key[2], len(key[1]), key[3])):
                    sizes[j] += orc.prob * x
                # request-level: means of the per-score multiplicity distributions (single pass)
                if eff == "single_pass":
                    reqs = _multiplicity_requests(orc, len(pos), len(neg))
                    tot = sum(sum(r) for r in reqs)
                    want = len(pos) + len(neg) + ep + en - key[2] - key[3]
                    if strat == "by_label":
                        bad = [r for r in reqs if any(abs(m - 1.0) > 1e-12 for m in r)]
                        if bad or len(reqs) != 2:
                            ctx.fail("single-pass-multiplicity-mean-is-one", dict(case, answers=orc.choices),
                                     observed=reqs, expected="two requests with mean 1 per score")
                    elif abs(tot - want) > 1e-9:
                        ctx.fail("single-pass-multiplicity-means-sum-to-drawn-sizes", dict(case, answers=orc.choices),
                                 observed={"sum_of_means": tot, "requests": reqs}, expected=want)
        except rngtree.UnownedRNG as e:
            raise HarnessError(str(e))
        ctx.add("leaves", leaves)
        ctx.outcome((method, strat, len(dist)))
        if nondet:
            ctx.fail("deterministic-given-answers", case, observed=f"{nondet} of {leaves} leaves", expected=0)
        if exact and abs(mass - 1.0) > 1e-9:
            ctx.fail("leaf-probabilities-sum-to-one", case, observed=mass, expected=1.0)
        elif exact:
            ctx.add("complete_answer_trees_with_leaf_mass_1")
        if method == "callable" or smoothing:
            continue
        # ---- whole-tree verdicts --------------------------------------------------
        for values, cnt, name in ((pos, cnt_p, "pos"), (neg, cnt_n, "neg")):
            if not values:
                continue
            per_value = {float(v): cnt.get(float(v), 0.0) / list(map(float, values)).count(float(v)) for v in set(values)}
            if min(per_value.values()) <= 0.0:
                ctx.fail("every-source-score-reachable", dict(case, cls=name), observed=per_value, expected="> 0")
            if eff in ("replacement", "single_pass"):
                lo_, hi_ = min(per_value.values()), max(per_value.values())
                if hi_ - lo_ > 1e-9:
                    ctx.fail("multiplicities-exchangeable-within-class", dict(case, cls=name), observed=per_value,
                             expected="equal expected multiplicity for every score of a class")
        if eff == "replacement":
            model = model_replacement(list(map(float, pos)), list(map(float, neg)), ep, en, strat == "by_label")
            for key, pm in model.items():
                pi = dist.get(key, 0.0)
                if pi < pm - 1e-10:
                    ctx.fail("outcome-distribution-dominates-unbiased-model", dict(case, outcome=key),
                             observed=pi, expected=pm)
                    break
            if strat == "by_label":
                for j, (got, want) in enumerate(zip(sizes, (len(pos), ep, len(neg), en))):
                    if abs(got - want) > 1e-9:
                        ctx.fail("expected-stratum-sizes", dict(case, stratum=j), observed=got, expected=want)
                for values, cnt in ((pos, cnt_p), (neg, cnt_n)):
                    for v in set(values):
                        e = cnt.get(float(v), 0.0) / list(map(float, values)).count(float(v))
                        if abs(e - 1.0) > 1e-9:
                            ctx.fail("expected-multiplicity-one", dict(case, value=v), observed=e, expected=1.0)
        if eff == "proportion":
            # without replacement: every k-subset equally likely -> equal inclusion probability per score
            for values, cnt, name in ((pos, cnt_p, "pos"), (neg, cnt_n, "neg")):
                k = max(int(ratio * len(values)), 1)
                for v in set(values):
                    e = cnt.get(float(v), 0.0) / list(map(float, values)).count(float(v))
                    if abs(e - k / len(values)) > 1e-9:
                        ctx.fail("proportion-inclusion-probability", dict(case, cls=name, value=v), observed=e,
                                 expected=k / len(values))
    ctx.sample({"pos": pos, "neg": neg, "easy": [ep, en], "cfg": list(cfg), "configs": [list(map(str, c)) for c in configs]})
    return None


# --------------------------------------------------------------------------- #
# the dynamic switch at ~100 scores: deviation-bounded exploration
# --------------------------------------------------------------------------- #
def _default(kind, params, menu):
    if kind == "choice":
        return 0
    best = max(range(len(menu)), key=lambda i: menu[i][1])
    return best


def _run_switch(item, ctx, b):
    from score_analysis import BootstrapConfig, Scores

    hp, hn, smoothing = item["hp"], item["hn"], item["smoothing"]
    pos = [10.0 + 0.5 * i for i in range(hp)]
    neg = [0.25 * i for i in range(hn)]
    ep, en = 3, 2
    src = Scores(pos[::-1], neg[::-1], nb_easy_pos=ep, nb_easy_neg=en)
    cfgobj = BootstrapConfig(sampling_method="dynamic", smoothing=smoothing)
    case = {"hard_pos": hp, "hard_neg": hn, "smoothing": smoothing, "easy": [ep, en]}

    def fn(orc):
        return src.bootstrap_sample(cfgobj)

    class Reduced:
        """Alternatives per point: the extremes and the neighbours of the default answer."""

    runs = 0
    seen_methods = set()
    ctx.state()
    for orc, sample, devs in rngtree.explore_deviations(fn, _default, 0):
        base_len = len(orc.trace)
    # choose deviation points: every point, alternatives reduced to first / last / default+-1
    import random as _r

    d = b["deviations"]
    plans = [()]
    pts = list(range(base_len))
    step = max(1, base_len // 60)
    single = []
    for i in pts[::step] + pts[-3:]:
        for how in ("first", "last", "next"):
            single.append((i, how))
    plans += [(s,) for s in single]
    if d >= 2:
        plans += [(single[i], single[j]) for i in range(0, len(single), 7) for j in range(i + 3, len(single), 11)
                  if single[i][0] < single[j][0]]
    for plan in plans:
        pm = dict(plan)

        class O(rngtree.Oracle):
            def choose(self, kind, params, menu):
                menu = [(a, p) for a, p in menu if p > 0.0]
                i = len(self.trace)
                dflt = _default(kind, params, menu)
                how = pm.get(i)
                c = dflt
                if how == "first":
                    c = 0
                elif how == "last":
                    c = len(menu) - 1
                elif how == "next":
                    c = min(dflt + 1, len(menu) - 1)
                self.trace.append((kind, params, menu, c))
                self.prob *= menu[c][1]
                return menu[c][0]

        orc = O((), 100000)
        with rngtree.owned(orc):
            sample = fn(orc)
        runs += 1
        ctx.tick()
        kinds = {t[0] for t in orc.trace}
        batched = [t for t in orc.trace if t[0] in ("binomial", "poisson") and len(t[1]) >= 3 and t[1][-1] in (hp, hn)]
        used = "single_pass" if batched else "replacement"
        seen_methods.add(used)
        expect_sp = hp >= 100 and hn >= 100 and not smoothing
        expect_rep = hp < 100 or hn < 100 or smoothing
        at_boundary = (min(hp, hn) == 100) and not smoothing
        if not at_boundary:
            if used == "single_pass" and not expect_sp:
                ctx.fail("dynamic-switch", dict(case, plan=list(plan)), observed=used, expected="replacement")
            if used == "replacement" and not expect_rep:
                ctx.fail("dynamic-switch", dict(case, plan=list(plan)), observed=used, expected="single_pass")
        c2 = dict(case, plan=[list(p) for p in plan], method_used=used)
        _wellformed(ctx, c2, src, sample, pos, neg, ep, en, ("pos", "pos"), used, None, smoothing)
        if plan:
            ctx.nontrivial()
        if used == "single_pass":
            reqs = _multiplicity_requests(orc, hp, hn)
            tot = sum(sum(r) for r in reqs)
            want = hp + hn + ep + en - int(sample.nb_easy_pos) - int(sample.nb_easy_neg)
            if abs(tot - want) > 1e-6:
                ctx.fail("single-pass-multiplicity-means-sum-to-drawn-sizes", c2, observed=tot, expected=want)
    ctx.outcome((hp, hn, smoothing, tuple(sorted(seen_methods))))
    ctx.add("switch_runs", runs)
    ctx.sample({"kind": "switch", "hard_pos": hp, "hard_neg": hn, "smoothing": smoothing, "runs": runs,
                "deviation_bound": d, "methods_seen": sorted(seen_methods)})
    return None


def _run_strata(item, ctx):
    from score_analysis import BootstrapConfig, Scores

    hp, hn = item["hp"], item["hn"]
    ep, en = item["easy"]
    pos = [1.0 + 0.5 * i for i in range(hp)]
    neg = [0.25 * i for i in range(hn)]
    src = Scores(pos[::-1], neg[::-1], nb_easy_pos=ep, nb_easy_neg=en)
    for method in ("replacement", "single_pass", "dynamic"):
        cfgobj = BootstrapConfig(sampling_method=method, stratified_sampling="by_label")
        case = {"pos": pos, "neg": neg, "easy": [ep, en], "method": method, "stratified": "by_label"}
        ctx.state()
        mass = 0.0
        for orc, smp in rngtree.explore(lambda o: src.bootstrap_sample(cfgobj), observe=_outcome, twice=False):
            ctx.tick()
            mass += orc.prob
            if ep + en:
                ctx.nontrivial()
            eff = "replacement" if method == "dynamic" else method
            _wellformed(ctx, dict(case, answers=orc.choices), src, smp, pos, neg, ep, en, ("pos", "pos"), eff, "by_label", False)
        if abs(mass - 1.0) > 1e-9:
            ctx.fail("leaf-probabilities-sum-to-one", case, observed=mass, expected=1.0)
    ctx.sample({"kind": "strata", "hard": [hp, hn], "easy": [ep, en]})
    return None


def _run_two_samples(item, ctx):
    """A caller holds several samples of one source at once: drawing the next one must not change the earlier ones."""
    from score_analysis import BootstrapConfig, Scores

    hp, hn = item["hp"], item["hn"]
    pos = [1.0 + 0.5 * i for i in range(hp)]
    neg = [0.25 * i for i in range(hn)]
    for ep, en in ((0, 0), (1, 0)):
        src = Scores(pos[::-1], neg[::-1], nb_easy_pos=ep, nb_easy_neg=en)
        for method, strat in (("single_pass", "by_label"), ("single_pass", None), ("replacement", "by_label"), ("replacement", None),
                              ("proportion>single_pass", "by_label"), ("proportion>replacement", "by_label")):
            if strat is None and hp + hn + ep + en > 3:
                continue
            if ">" in method:
                first, method = method.split(">")
            else:
                first = method
            cfg_first = BootstrapConfig(sampling_method=first, stratified_sampling=strat if first != "proportion" else None,
                                        ratio=0.5 if first == "proportion" else None)
            cfgobj = BootstrapConfig(sampling_method=method, stratified_sampling=strat)
            case = {"pos": pos, "neg": neg, "easy": [ep, en], "method": method, "first_method": first, "stratified": strat,
                    "history": ["s1 = bootstrap_sample(first_method)", "s2 = bootstrap_sample(method)", "inspect s1 and s2"]}
            ctx.state()

            def fn(orc):
                s1 = src.bootstrap_sample(cfg_first)
                snap = _outcome(s1)
                s2 = src.bootstrap_sample(cfgobj)
                return s1, snap, s2

            for orc, (s1, snap, s2) in rngtree.explore(fn, twice=False):
                ctx.tick()
                ctx.nontrivial()
                c2 = dict(case, answers=orc.choices)
                if _outcome(s1) != snap:
                    ctx.fail("earlier-sample-unchanged-by-later-sampling", c2, observed=_outcome(s1), expected=snap)
                    break
                if first == method:
                    _wellformed(ctx, c2, src, s1, pos, neg, ep, en, ("pos", "pos"), method, strat, False)
                _wellformed(ctx, c2, src, s2, pos, neg, ep, en, ("pos", "pos"), method, strat, False)
                if (np.asarray(src.pos, dtype=float).tolist() != sorted(pos) or np.asarray(src.neg, dtype=float).tolist() != sorted(neg)
                        or src.nb_easy_pos != ep or src.nb_easy_neg != en):
                    ctx.fail("source-unchanged-by-sampling", c2, observed=[src.pos, src.neg], expected=[pos, neg])
                    break
    ctx.sample({"kind": "two_samples", "hard": [hp, hn]})
    return None


def _run_proportion_sizes(item, ctx, tier):
    """Proportion sampling draws max(int(ratio*n), 1) scores and int(ratio*easy) easy samples for every size n."""
    from score_analysis import BootstrapConfig, Scores

    ratios = [r / 100.0 for r in range(1, 100, 3)] if tier == "thorough" else [0.03, 0.12, 0.15, 0.25, 0.3, 0.34, 0.5, 0.6, 0.7, 0.75,
                                                                           0.9, 0.97, 0.99]
    sizes = list(range(1, 81)) + [100, 200] if tier == "thorough" else list(range(1, 41)) + [50, 100, 200]
    ratios_big = [1 / 16, 1 / 32, 0.02, 0.3, 0.003, 0.002, 0.0007]  # the last three: a handful of scores out of thousands
    sizes_big = [1024, 2048, 4097]  # (20000 and 70000 with sixteen one-deviation runs each were part of the thorough tier that did not finish)
    combos = ([(r, n) for r in ratios for n in sizes] + [(r, n) for r in ratios_big for n in sizes_big])[item["part"]::item["parts"]]
    for ratio, n in combos:
        pos = [float(i) for i in range(n)]
        neg = [float(i) + 0.5 for i in range(max(1, n // 2))]
        ep, en = n, 40
        src = Scores(pos, neg, nb_easy_pos=ep, nb_easy_neg=en)
        cfgobj = BootstrapConfig(sampling_method="proportion", ratio=ratio)
        case = {"n_pos": n, "n_neg": len(neg), "easy": [ep, en], "ratio": ratio, "answers": "all-default (first k of the population)"}
        ctx.state()
        orc = rngtree.Oracle((), 400000, cycle_uniform=True)
        with rngtree.owned(orc):
            smp = src.bootstrap_sample(cfgobj)
        ctx.tick()
        if abs(ratio * n - round(ratio * n)) < 1e-9:
            ctx.nontrivial()
        _wellformed(ctx, case, src, smp, pos, neg, ep, en, ("pos", "pos"), "proportion", None, False, ratio)
        if n >= 1024:
            # reachability within one deviation: over the default run and the runs that answer "last" (resp. "first")
            # at one of the first choice points, the largest and the smallest score of each class must each be drawn
            # at least once (a sampler that can only ever return the low ranks fails this)
            seen_p, seen_n = set(np.asarray(smp.pos).tolist()), set(np.asarray(smp.neg).tolist())
            npoints = len(orc.trace)
            for pt in sorted(set(list(range(0, min(npoints, 6))) + [npoints // 2, max(npoints - 1, 0)])):
                for how in ("last", "first"):
                    class Dev(rngtree.Oracle):
                        def choose(self, kind, params, menu, _pt=pt, _how=how):
                            if len(self.trace) == _pt:
                                menu = [(a, p_) for a, p_ in menu if p_ > 0.0]
                                c = len(menu) - 1 if _how == "last" else 0
                                self.trace.append((kind, params, menu, c))
                                return menu[c][0]
                            return super().choose(kind, params, menu)

                    o2 = Dev((), 400000, cycle_uniform=True)
                    with rngtree.owned(o2):
                        s2 = src.bootstrap_sample(cfgobj)
                    ctx.tick()
                    _wellformed(ctx, dict(case, deviation=[pt, how]), src, s2, pos, neg, ep, en, ("pos", "pos"), "proportion", None, False, ratio)
                    seen_p |= set(np.asarray(s2.pos).tolist())
                    seen_n |= set(np.asarray(s2.neg).tolist())
            missing = [nm for nm, v, seen in (("largest positive", pos[-1], seen_p), ("smallest positive", pos[0], seen_p),
                                              ("largest negative", neg[-1], seen_n), ("smallest negative", neg[0], seen_n)) if v not in seen]
            if missing:
                ctx.fail("every-source-score-reachable", dict(case, bound="default run + one deviation (first/last answer) at 8 choice points"),
                         observed=f"never drawn: {missing}", expected="each extreme score drawn in at least one explored run")
    ctx.sample({"kind": "proportion_sizes", "ratios": len(ratios), "sizes": len(sizes)})
    return None


def _run_entry_points(item, ctx, seed):
    """
    bootstrap_metric / bootstrap_ci hand the metric exactly the samples bootstrap_sample draws: observed through a
    metric that reports the four strata, under the real seeded RNG, for every method x stratification, with the
    option strings passed as literals, as equal strings built at run time and as NumPy strings.
    """
    from score_analysis import BootstrapConfig, Scores

    hp, hn = item["sizes"]
    ep, en = 40, 25
    pos = [0.5 * i + 0.25 for i in range(hp)]
    neg = [0.5 * i for i in range(hn)]
    src = Scores(np.array(pos[::-1]), np.array(neg[::-1]), nb_easy_pos=ep, nb_easy_neg=en)

    def strata(s_):
        return np.array([len(s_.pos), int(s_.nb_easy_pos), len(s_.neg), int(s_.nb_easy_neg)], dtype=float)

    for method in ("replacement", "single_pass", "dynamic"):
        for strat in (None, "by_label"):
            for mk, mval in ot.string_kinds(method):
                for sk, sval in (ot.string_kinds(strat) if strat else [("none", None)]):
                    if (mk, sk) not in (("literal", "literal"), ("literal", "none"), ("built-at-run-time", "built-at-run-time"), ("np.str_", "np.str_"),
                                        ("built-at-run-time", "none"), ("literal", "built-at-run-time")):
                        continue
                    case = {"kind": "entry_points", "hard": [hp, hn], "easy": [ep, en], "method": method, "stratified": strat,
                            "method_passed_as": mk, "stratified_passed_as": sk, "np_random_seed": seed}
                    cfgobj = BootstrapConfig(nb_samples=3, sampling_method=mval, stratified_sampling=sval, bootstrap_method="quantile")
                    eff = method
                    if method == "dynamic":
                        eff = "single_pass" if min(hp, hn) >= 100 else "replacement"
                    ctx.state()
                    rows = {}
                    for entry in ("bootstrap_sample", "bootstrap_metric", "bootstrap_ci"):
                        st = np.random.get_state()
                        np.random.seed(seed + 11)
                        try:
                            if entry == "bootstrap_sample":
                                ok, r = guarded(ctx, entry, case, lambda: np.stack([strata(src.bootstrap_sample(cfgobj)) for _ in range(3)]))
                            elif entry == "bootstrap_metric":
                                ok, r = guarded(ctx, entry, case, lambda: np.asarray(src.bootstrap_metric(strata, cfgobj), dtype=float))
                            else:
                                ok, r = guarded(ctx, entry, case, lambda: np.asarray(src.bootstrap_ci(strata, 0.5, cfgobj), dtype=float))
                        finally:
                            np.random.set_state(st)
                        ctx.tick()
                        ctx.nontrivial()
                        if ok:
                            rows[entry] = r
                    for entry in ("bootstrap_sample", "bootstrap_metric"):
                        if entry not in rows:
                            continue
                        for row in rows[entry].tolist():
                            tot = sum(row)
                            if eff == "replacement" and tot != hp + hn + ep + en:
                                ctx.fail("replacement-preserves-total-count", dict(case, entry=entry), observed=row, expected=hp + hn + ep + en)
                            if strat == "by_label" and eff == "replacement" and row != [hp, ep, hn, en]:
                                ctx.fail("by-label-preserves-strata", dict(case, entry=entry), observed=row, expected=[hp, ep, hn, en])
                            if strat == "by_label" and eff == "single_pass" and [row[1], row[3]] != [ep, en]:
                                ctx.fail("by-label-preserves-strata", dict(case, entry=entry), observed=row, expected=["*", ep, "*", en])
                    # an interval over samples that all preserve a stratum is degenerate at the source's count
                    if "bootstrap_ci" in rows and strat == "by_label" and rows["bootstrap_ci"].shape == (4, 2):
                        ci = rows["bootstrap_ci"].tolist()
                        fixed = [0, 1, 2, 3] if eff == "replacement" else [1, 3]
                        want = [hp, ep, hn, en]
                        for c_ in fixed:
                            if ci[c_] != [want[c_], want[c_]]:
                                ctx.fail("by-label-preserves-strata", dict(case, entry="bootstrap_ci", component=c_), observed=ci[c_],
                                         expected=[want[c_], want[c_]])
                                break
                    ctx.outcome((method, strat, mk, sk, str(rows.get("bootstrap_sample"))))
    ctx.sample({"kind": "entry_points", "hard": [hp, hn], "easy": [ep, en]})
    return None


def _run_large_real(item, ctx, seed):
    """Sources with tens of thousands of scores under the real (seeded) RNG: leaf-level clauses only."""
    import bisect
    from score_analysis import BootstrapConfig, Scores

    hp, hn = item["sizes"]
    pos = [0.5 * i + 0.25 for i in range(hp)]
    neg = [0.5 * i for i in range(hn)]
    ep, en = 3, 0
    src = Scores(np.array(pos[::-1]), np.array(neg[::-1]), nb_easy_pos=ep, nb_easy_neg=en)
    for method, strat, ratio in (("replacement", None, None), ("replacement", "by_label", None), ("dynamic", None, None),
                                 ("single_pass", "by_label", None), ("proportion", None, 0.03)):
        for sd in (seed, seed + 1):
            case = {"kind": "large_real", "hard": [hp, hn], "easy": [ep, en], "method": method, "stratified": strat, "ratio": ratio,
                    "np_random_seed": sd}
            st = np.random.get_state()
            np.random.seed(sd)
            try:
                ok, smp = guarded(ctx, "bootstrap_sample", case, lambda: src.bootstrap_sample(
                    BootstrapConfig(sampling_method=method, stratified_sampling=strat, ratio=ratio)))
            finally:
                np.random.set_state(st)
            ctx.state()
            ctx.tick()
            ctx.nontrivial()
            if not ok:
                continue
            sp, sn = np.asarray(smp.pos, dtype=float), np.asarray(smp.neg, dtype=float)
            if np.any(np.diff(sp) < 0) or np.any(np.diff(sn) < 0):
                ctx.fail("sample-internally-ordered", case, observed="unsorted", expected="ascending arrays")
                continue
            if not (np.all(np.isin(sp, np.array(pos))) and np.all(np.isin(sn, np.array(neg)))):
                ctx.fail("scores-from-same-class", case, observed="foreign score", expected="subset of the source")
            # metrics equal direct counting on the sample's own (sorted) arrays
            lp, ln = sp.tolist(), sn.tolist()
            T = [pos[len(pos) // 3], neg[(2 * len(neg)) // 3] + 0.1, pos[-1], neg[0] - 1.0]
            got = smp.cm(np.array(T)).matrix.tolist()
            for t, g in zip(T, got):
                exp = refs.ref_cm_sorted(lp, ln, t, "pos", "pos", int(smp.nb_easy_pos), int(smp.nb_easy_neg))
                if g != exp:
                    ctx.fail("sample-metrics-equal-direct-counting", dict(case, threshold=t), observed=g, expected=exp)
                    break
            n_src, n_smp = hp + hn + ep + en, len(lp) + len(ln) + int(smp.nb_easy_pos) + int(smp.nb_easy_neg)
            eff = method
            if method == "dynamic":
                eff = "single_pass" if min(hp, hn) > 100 else "replacement"
            if eff == "replacement" and n_smp != n_src:
                ctx.fail("replacement-preserves-total-count", case, observed=n_smp, expected=n_src)
            if eff == "replacement" and strat == "by_label" and [len(lp), len(ln)] != [hp, hn]:
                ctx.fail("by-label-preserves-strata", case, observed=[len(lp), len(ln)], expected=[hp, hn])
            if method == "proportion":
                want = [max(int(ratio * hp), 1), max(int(ratio * hn), 1)]
                if [len(lp), len(ln)] != want or len(set(lp)) != len(lp) or len(set(ln)) != len(ln):
                    ctx.fail("proportion-sizes", case, observed=[len(lp), len(ln)], expected=want)
            if eff in ("replacement", "single_pass") and hp >= 1000:
                # every tenth of the source is represented (a bootstrap sample of >= 1000 scores misses a whole decile
                # with probability < 1e-40)
                dec = {int(bisect.bisect_left(pos, v) * 10 // hp) for v in lp}
                if len(dec) < 10:
                    ctx.fail("every-source-score-reachable", case, observed=sorted(dec), expected="all ten deciles of the positives present")
    ctx.sample({"kind": "large_real", "hard": [hp, hn]})
    return None

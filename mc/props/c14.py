"""C14 - bootstrapped metrics/intervals are what the sampler and the CI formula produce."""

from __future__ import annotations

import itertools
import math

import numpy as np

from mc import opgraph
from mc import ordertypes as ot
from mc import refs
from mc import rngtree
from mc.harness import HarnessError, guarded

ID = "C14"
TITLE = "Bootstrapped metrics/intervals are what the sampler and the CI formula produce"
ENGINE = "rng-answer-tree"
TECHNIQUE = ("exhaustive enumeration of sampler answer sequences (menu sampler: all m^n; built-in samplers: complete "
             "RNG answer tree) on the real code, plus explicit-state BFS over call histories")
RULE = (
    "state = (source object, metric spec, sampler answer sequence); transition = one bootstrap_metric / "
    "bootstrap_ci call compared row by row with the metric evaluated on the objects the sampler returned and "
    "with the plain-Python CI formula; non-trivial = the answer sequence contains at least two different "
    "sub-samples (rows differ) ; distinct by construction"
)
ASSUMPTIONS = [
    "menu sampler with m=3 fixed sub-samples, nb_samples <= 3 (all 39 sequences); built-in samplers with "
    "nb_samples in {1,2} on sources with <= 3 scores (complete answer trees)",
    "CI formulas re-implemented in plain Python (see C13), tolerance 1e-9",
    "reproducibility for 'all seeds' is decided by ownership of every entropy source plus determinism in the answer "
    "sequence on every explored path; three real seeds are run in addition",
]


def bounds(tier):
    if tier == "quick":
        return {"menu": 3, "max_nb_samples": 3, "builtin_nb_samples": [1, 2], "builtin_sources": 4, "alphas": [0.05, 0.5]}
    return {"menu": 4, "max_nb_samples": 3, "builtin_nb_samples": [1, 2, 3], "builtin_sources": 6, "alphas": [0.05, 0.5, 0.9]}


def sources():
    from score_analysis import GroupScores, Scores

    s1 = lambda: Scores([0.5, 2.0, 2.0, 3.5], [0.0, 2.0, 1.0], nb_easy_pos=1, nb_easy_neg=2)  # noqa: E731
    s2 = lambda: Scores([1, 4, 2], [3, 0, 2, 5], score_class="neg", equal_class="neg")  # noqa: E731
    g1 = lambda: GroupScores(pos=[3.0, 1.0, 2.0, 2.5], neg=[0.0, 2.0, 5.0, 1.5], pos_groups=["a", "b", "a", "b"],  # noqa: E731
                             neg_groups=["b", "a", "b", "a"])
    return {"scores-easy-ties": s1, "scores-int-negneg": s2, "groupscores": g1, "scores-nan-menu": s1}


def menu_for(name, m):
    from score_analysis import GroupScores, Scores

    if name == "groupscores":
        base = [
            GroupScores(pos=[1.0, 2.0], neg=[0.0, 3.0], pos_groups=["a", "b"], neg_groups=["a", "b"], group_names=["a", "b"]),
            GroupScores(pos=[2.0, 2.0, 4.0], neg=[2.0, 1.0], pos_groups=["b", "a", "a"], neg_groups=["b", "a"], group_names=["a", "b"]),
            GroupScores(pos=[0.0, 5.0], neg=[1.0, 1.0, 6.0], pos_groups=["a", "b"], neg_groups=["b", "a", "a"], group_names=["a", "b"]),
            GroupScores(pos=[3.0, 3.5], neg=[2.0, 3.25], pos_groups=["a", "b"], neg_groups=["a", "b"], group_names=["a", "b"]),
        ]
    elif name == "scores-nan-menu":
        # sub-samples lacking a class: rate metrics are NaN on them, and NaN replicates must be ignored by the CI
        base = [Scores([], [0.0, 1.0]), Scores([0.5, 2.0], [0.0, 1.0], nb_easy_pos=1), Scores([2.0, 3.5], []),
                Scores([2.0, 2.0, 3.5], [2.0], nb_easy_neg=2)]
    elif name == "scores-int-negneg":
        base = [Scores([1, 2], [3, 0], score_class="neg", equal_class="neg"),
                Scores([4, 4, 1], [2, 5], score_class="neg", equal_class="neg"),
                Scores([0], [0, 1, 2], score_class="neg", equal_class="neg"),
                Scores([2, 3], [1, 4, 4], score_class="neg", equal_class="neg")]
    else:
        base = [Scores([0.5, 2.0], [0.0, 1.0], nb_easy_pos=1), Scores([2.0, 2.0, 3.5], [2.0], nb_easy_neg=2),
                Scores([3.5], [0.0, 1.0, 2.0], nb_easy_pos=2, nb_easy_neg=1), Scores([0.5, 3.5], [1.0, 2.0])]
    return base[:m]


class _ReusedBuffer:
    """A metric that writes its result into one preallocated array and returns that same array every time."""

    def __init__(self, thr):
        self.thr = thr
        self.buf = np.zeros(4)

    def __call__(self, s):
        self.buf[:3] = np.nan_to_num(np.asarray(s.fnr(self.thr), dtype=float))
        self.buf[3] = float(s.nb_hard_pos)
        return self.buf


def metric_specs(name):
    """[(label, metric (str or callable), kwargs)]"""
    from score_analysis.group_scores import groupwise

    thr = np.array([0.0, 2.0, 2.5])
    specs = [
        ("eer", "eer", {}),
        ("auc", "auc", {}),
        ("auc-partial", "auc", {"lower": 0.0, "upper": 0.5}),
        ("tpr@scalar", "tpr", {"threshold": 2.0}),
        ("fnr@array", "fnr", {"threshold": thr}),
        ("topr@2d", "topr", {"threshold": thr.reshape(1, 3)}),
        ("threshold_at_fpr", "threshold_at_fpr", {"fpr": np.array([0.25, 0.5])}),
        ("callable-scalar", lambda s, **kw: float(s.fpr(2.0)) + kw.get("shift", 0.0), {"shift": 0.125}),
        ("callable-vector", lambda s, k=1: np.array([s.nb_hard_pos * k, s.nb_hard_neg, float(s.tpr(2.0))]), {"k": 3}),
        ("callable-matrix", lambda s: np.asarray(s.cm(thr).matrix, dtype=float), {}),
        ("callable-reused-buffer", _ReusedBuffer(thr), {}),
        # a metric living at a tiny scale (rates of rare events): absolute tolerances inside the CI code would bite
        ("callable-tiny-scale", lambda s: np.array([s.fpr(2.0), s.fnr(2.0), float(s.nb_hard_pos)], dtype=float) * 2.0 ** -30, {}),
    ]
    if name == "scores-nan-menu":
        specs = [sp for sp in specs if sp[0] in ("tpr@scalar", "fnr@array", "topr@2d")] + [
            ("callable-rates", lambda s: np.array([s.tpr(2.0), s.fpr(2.0), s.tnr(0.5)], dtype=float), {})]
    if name == "groupscores":
        specs = [
            ("group_fpr", "group_fpr", {"threshold": thr}),
            ("group_tar@scalar", "group_tar", {"threshold": 2.0}),
            ("groupwise-fnr", groupwise("fnr"), {"threshold": thr}),
            ("groupwise-callable", groupwise(lambda s, threshold: s.topr(threshold)), {"threshold": 2.0}),
            ("fnr@array", "fnr", {"threshold": thr}),
            ("eer", "eer", {}),
        ]
    return specs


def work(tier, seed):
    items = []
    for name in sources():
        for mi in range(len(metric_specs(name))):
            items.append({"kind": "menu", "source": name, "metric_index": mi})
    b = bounds(tier)
    for k in range(b["builtin_sources"]):
        items.append({"kind": "builtin", "which": k})
    items.append({"kind": "seeds"})
    items.append({"kind": "history"})
    for k in range(4):
        items.append({"kind": "corners", "which": k})
    items.append({"kind": "cross_process"})
    return items


def evaluate(metric, obj, kwargs):
    if isinstance(metric, str):
        return np.array(getattr(type(obj), metric)(obj, **kwargs))
    return np.array(metric(obj, **kwargs))  # a copy: the metric may reuse its output buffer


def _eq(a, b):
    a, b = np.asarray(a, dtype=float), np.asarray(b, dtype=float)
    return a.shape == b.shape and np.array_equal(a, b, equal_nan=True)


def ref_ci(rows, est, alpha, method):
    """Plain-Python CI per component; rows (n,)+Y, est Y. Returns array Y+(2,) (nan where ill-conditioned)."""
    rows = np.asarray(rows, dtype=float)
    est = np.asarray(est, dtype=float)
    Y = rows.shape[1:]
    flat = rows.reshape(rows.shape[0], -1)
    e = est.reshape(-1)
    out = np.full((flat.shape[1], 2), np.nan)
    skip = np.zeros(flat.shape[1], dtype=bool)
    for j in range(flat.shape[1]):
        col = flat[:, j].tolist()
        if all(math.isnan(v) for v in col):
            skip[j] = True
            continue
        r = refs.ref_bootstrap_ci(col, float(e[j]), alpha, method)
        if r is None:
            skip[j] = True
        else:
            out[j] = r
    return out.reshape(Y + (2,)), skip.reshape(Y)


def run(item, ctx, tier, seed):
    from score_analysis import BootstrapConfig

    b = bounds(tier)
    if item["kind"] == "menu":
        name = item["source"]
        make = sources()[name]
        label, metric, kwargs = metric_specs(name)[item["metric_index"]]
        menu = menu_for(name, b["menu"])
        src = make()
        est = evaluate(metric, src, kwargs)
        menu_vals = [evaluate(metric, o, kwargs) for o in menu]
        case0 = {"source": name, "metric": label}
        # identity sampler: lower == upper == point estimate
        for method in ("quantile", "bc", "bca"):
            cfg = BootstrapConfig(nb_samples=3, bootstrap_method=method, sampling_method=lambda s: s)
            ok, ci = guarded(ctx, "identity-ci", dict(case0, method=method), lambda: src.bootstrap_ci(metric, 0.1, cfg, **kwargs))
            ctx.tick()
            ctx.state()
            if ok:
                ci = np.asarray(ci, dtype=float)
                want = np.stack([est.astype(float), est.astype(float)], axis=-1)
                if ci.shape != want.shape or not np.allclose(ci, want, rtol=0, atol=1e-12, equal_nan=True):
                    ctx.fail("identity-sampler-collapses-to-point-estimate", dict(case0, method=method), observed=ci, expected=want)
        for n in range(1, b["max_nb_samples"] + 1):
            for seq in itertools.product(range(len(menu)), repeat=n):
                calls = []

                def sampler(s, _seq=seq, _calls=calls):
                    _calls.append(s)
                    return menu[_seq[len(_calls) - 1]]

                seen = []
                if callable(metric):
                    def m2(s, _m=metric, _seen=seen, **kw):
                        _seen.append(s)
                        return _m(s, **kw)
                    use = m2
                else:
                    use = metric
                case = dict(case0, sequence=list(seq))
                cfg = BootstrapConfig(nb_samples=n, sampling_method=sampler, bootstrap_method="quantile")
                ctx.state()
                if len(set(seq)) > 1:
                    ctx.nontrivial()
                ok, rows = guarded(ctx, "bootstrap_metric", case, lambda: src.bootstrap_metric(use, config=cfg, **kwargs))
                ctx.tick()
                if not ok:
                    continue
                rows = np.asarray(rows)
                want = np.stack([menu_vals[k] for k in seq], axis=0)
                if rows.shape != (n,) + est.shape:
                    ctx.fail("rows-have-metric-shape", case, observed=list(rows.shape), expected=[n] + list(est.shape))
                    continue
                if not _eq(rows, want):
                    ctx.fail("row-j-is-metric-of-jth-sample", case, observed=rows, expected=want)
                if len(calls) != n or any(c is not src for c in calls):
                    ctx.fail("sampler-called-once-per-row-on-self", case, observed=len(calls), expected=n)
                if callable(metric):
                    objs = [o for o in seen if o is not src]
                    if [id(o) for o in objs] != [id(menu[k]) for k in seq]:
                        ctx.fail("metric-evaluated-on-the-samples-in-order", case,
                                 observed=[("src" if o is src else "sample") for o in seen], expected="each sample once, in order")
                ctx.outcome((label, rows.tobytes()))
                # vector-valued alpha (quantile method): entry [y, z] is the interval of component y at alpha z
                if n >= 2 and est.ndim >= 1 and not np.isnan(np.asarray(want, dtype=float)).any():
                    calls3 = []

                    def sampler3(s, _seq=seq, _calls=calls3):
                        _calls.append(s)
                        return menu[_seq[len(_calls) - 1]]

                    alphas = np.array([0.1, 0.5, 0.9])
                    cfg3 = BootstrapConfig(nb_samples=n, sampling_method=sampler3, bootstrap_method="quantile")
                    ok, civ = guarded(ctx, "bootstrap_ci-vector-alpha", case, lambda: src.bootstrap_ci(metric, alphas, cfg3, **kwargs))
                    ctx.tick()
                    if ok:
                        civ = np.asarray(civ, dtype=float)
                        if civ.shape != est.shape + (3, 2):
                            ctx.fail("ci-shape", dict(case, alpha="vector"), observed=list(civ.shape), expected=list(est.shape) + [3, 2])
                        else:
                            for z, a_ in enumerate(alphas.tolist()):
                                wz, _ = ref_ci(want, est, a_, "quantile")
                                sc_ = float(np.nanmax(np.abs(want))) if np.isfinite(want).any() and float(np.nanmax(np.abs(want))) > 0 else 1.0
                                if not np.allclose(civ[..., z, :], wz, rtol=0, atol=1e-9 * sc_, equal_nan=True):
                                    ctx.fail("ci-equals-formula-on-replicates", dict(case, alpha=a_, vector_alpha=True),
                                             observed=civ[..., z, :], expected=wz)
                                    break
                # bootstrap_ci == documented formula on those replicates with metric(self) as estimate
                wf = np.asarray(want, dtype=float).reshape(n, -1)
                if np.isnan(wf).all(axis=0).any():
                    # a component without any finite replicate: the formulas are undefined there (not claimed)
                    ctx.add("ci_skipped_all_nan_component")
                    continue
                for method in ("quantile", "bc", "bca"):
                    for alpha in b["alphas"]:
                        calls2 = []

                        def sampler2(s, _seq=seq, _calls=calls2):
                            _calls.append(s)
                            return menu[_seq[len(_calls) - 1]]

                        cfg2 = BootstrapConfig(nb_samples=n, sampling_method=sampler2,
                                               bootstrap_method=ot.string_kinds(method)[(n + len(seq) + int(alpha * 10)) % 3][1])
                        c3 = dict(case, method=method, alpha=alpha)
                        ok, ci = guarded(ctx, "bootstrap_ci", c3, lambda: src.bootstrap_ci(metric, alpha, cfg2, **kwargs))
                        ctx.tick()
                        if not ok:
                            continue
                        ci = np.asarray(ci, dtype=float)
                        wref, skip = ref_ci(want, est, alpha, method)
                        if ci.shape != wref.shape:
                            ctx.fail("ci-shape", c3, observed=list(ci.shape), expected=list(wref.shape))
                            continue
                        rng_ = float(np.nanmax(np.abs(want))) if np.isfinite(want).any() and float(np.nanmax(np.abs(want))) > 0 else 1.0
                        good = np.isclose(ci, wref, rtol=0, atol=1e-9 * rng_, equal_nan=True) | skip[..., None]
                        if not good.all():
                            ctx.fail("ci-equals-formula-on-replicates", c3, observed=ci, expected=wref)
        ctx.sample({"kind": "menu", "source": name, "metric": label, "menu_size": len(menu),
                    "sequences": sum(len(menu) ** n for n in range(1, b["max_nb_samples"] + 1))})
        return None

    if item["kind"] == "cross_process":
        return _run_cross_process(ctx, seed)
    if item["kind"] == "corners":
        return _run_corners(item, ctx)
    if item["kind"] == "builtin":
        return _run_builtin(item, ctx, b)
    if item["kind"] == "seeds":
        return _run_seeds(item, ctx, seed)
    return _run_history(item, ctx)


CROSS_SCRIPT = r"""
from score_analysis import BootstrapConfig, GroupScores, Scores
res = {}
def rec(key, f):
    try:
        res[key] = np.asarray(f(), dtype=float).round(12).tolist()
    except Exception as e:
        res[key] = "ERR:" + type(e).__name__
pos = [0.5 * i + 0.25 for i in range(14)]; neg = [0.5 * i for i in range(12)]
names = ["north", "south", "east", "west", "n_e"]
pg = [names[(i * 3) % 4] for i in range(14)]; ng = [names[(i * 5 + 1) % 4] for i in range(12)]
objs = {
  "scores": lambda: Scores(pos, neg, nb_easy_pos=3, nb_easy_neg=2),
  "groups": lambda: GroupScores(pos=pos, neg=neg, pos_groups=pg, neg_groups=ng),
  "groups-with-listed-empty-group": lambda: GroupScores(pos=pos, neg=neg, pos_groups=pg, neg_groups=ng, group_names=names),
  "groups-int-names": lambda: GroupScores(pos=pos, neg=neg, pos_groups=[i % 3 for i in range(14)], neg_groups=[i % 3 for i in range(12)]),
}
for oname, mk in objs.items():
    for method in ("replacement", "dynamic", "single_pass"):
        for strat in (None, "by_label", "by_group"):
            if strat == "by_group" and oname == "scores":
                continue
            cfg = BootstrapConfig(nb_samples=5, sampling_method=method, stratified_sampling=strat, bootstrap_method="bca")
            key = "%s/%s/%s" % (oname, method, strat)
            o = mk()
            np.random.seed(SEED); rec(key + "/metric", lambda: o.bootstrap_metric("fnr", cfg, threshold=np.array([1.0, 3.0])))
            np.random.seed(SEED); rec(key + "/ci", lambda: o.bootstrap_ci("auc", 0.2, cfg))
            np.random.seed(SEED); rec(key + "/sample", lambda: np.concatenate([o.bootstrap_sample(cfg).pos, o.bootstrap_sample(cfg).neg]))
            if oname != "scores":
                np.random.seed(SEED); rec(key + "/group_metric", lambda: o.bootstrap_metric("group_fpr", cfg, threshold=2.0))
print(json.dumps(res))
"""


def _run_cross_process(ctx, seed):
    """'For a fixed global RNG seed all bootstrap results are reproducible' - also across interpreter runs that differ
    in string hashing (PYTHONHASHSEED), which no in-process comparison can observe."""
    from mc import crossproc

    hs = (1, 2, 3)
    runs = crossproc.run_script("SEED = %d\n" % (seed + 5) + CROSS_SCRIPT, hs)
    ctx.state()
    base = runs[hs[0]]
    if "error" in base:
        ctx.fail("unexpected-exception:cross-process-script", {"kind": "cross_process", "hash_seed": hs[0]}, observed=base["error"], expected="results")
        return None
    for h in hs[1:]:
        r = runs[h]
        if "error" in r:
            ctx.fail("unexpected-exception:cross-process-script", {"kind": "cross_process", "hash_seed": h}, observed=r["error"], expected="results")
            continue
        for key in base:
            ctx.tick()
            ctx.nontrivial()
            if r.get(key) != base[key]:
                ctx.fail("reproducible-across-interpreter-runs", {"kind": "cross_process", "what": key, "np_random_seed": seed + 5,
                                                                  "PYTHONHASHSEED": [hs[0], h]}, observed=r.get(key), expected=base[key])
    ctx.outcome(("cross_process", len(base), sum(1 for v in base.values() if isinstance(v, str))))
    ctx.extra["cov_cross_process_results_compared"] = len(base)
    ctx.extra["cov_cross_process_configurations_raising"] = sum(1 for v in base.values() if isinstance(v, str))
    ctx.sample({"kind": "cross_process", "hash_seeds": list(hs), "results": len(base)})
    return None


def _run_corners(item, ctx):
    """
    Replicate patterns that the small menus cannot produce, still composed from sampler o metric o formula:
    (0,1) one outlying replicate among 19 / 39 copies of the estimate with tiny alpha (BCa beyond the pole of
          its acceleration term), through the named metric 'fnr' with a threshold keyword;
    (2,3) replicates one ulp above / below the estimate (the bias correction counts 'theta <= theta_hat' exactly),
          every sequence of length <= 4 over a menu of four objects.
    """
    from score_analysis import BootstrapConfig, Scores

    k = item["which"]
    if k < 2:
        src = Scores([0.5, 2.0, 2.0, 3.5, 1.0, 4.0, 0.25, 3.0, 2.25, 1.5], [0.0, 2.0, 1.0], nb_easy_pos=0)
        out = Scores([0.5, 0.6], [0.0, 1.0]) if k == 0 else Scores([5.0, 6.0, 7.0], [0.0])
        n = 20 if k == 0 else 40
        thr = 2.0
        est = np.array(src.fnr(thr))
        for where in (0, n // 2, n - 1):
            seq = [0] * n
            seq[where] = 1
            menu = [src, out]
            want = np.array([float(menu[j].fnr(thr)) for j in seq])
            for method in ("quantile", "bc", "bca"):
                for alpha in (1e-6, 1e-3, 0.05):
                    calls = []

                    def sampler(s, _seq=seq, _c=calls):
                        _c.append(1)
                        return menu[_seq[len(_c) - 1]]

                    cfg = BootstrapConfig(nb_samples=n, sampling_method=sampler, bootstrap_method=method)
                    case = {"kind": "corners", "pattern": f"{n - 1} x the source itself + 1 outlying sample at position {where}",
                            "metric": "fnr", "threshold": thr, "method": method, "alpha": alpha, "replicate_values": sorted(set(want.tolist()))}
                    ctx.state()
                    ctx.nontrivial()
                    ok, ci = guarded(ctx, "bootstrap_ci", case, lambda: src.bootstrap_ci("fnr", alpha, cfg, threshold=thr))
                    ctx.tick()
                    if not ok:
                        continue
                    wref, skip = ref_ci(want, est, alpha, method)
                    if skip.any():
                        ctx.add("ci_skipped_ill_conditioned")
                        continue
                    if not np.allclose(np.asarray(ci, dtype=float), wref, rtol=0, atol=1e-9):
                        ctx.fail("ci-equals-formula-on-replicates", case, observed=ci, expected=wref)
        ctx.sample({"kind": "corners", "which": k, "nb_samples": n})
        return None
    base = 0.39999999999999997 if k == 2 else 1.0
    src = Scores([0.5, 2.0], [0.0, 1.0])
    menu = [Scores([0.5, 2.0], [0.0, 1.0]) for _ in range(4)]
    table = {id(src): base, id(menu[0]): math.nextafter(base, math.inf), id(menu[1]): base, id(menu[2]): math.nextafter(base, -math.inf),
             id(menu[3]): base / 2}

    def metric(s, scale=1.0):
        return table[id(s)] * scale

    est = np.array(base * 4.0)
    for n in range(1, 5):
        for seq in itertools.product(range(4), repeat=n):
            want = np.array([table[id(menu[j])] * 4.0 for j in seq])
            for method in ("bc", "bca"):
                for alpha in (0.05, 0.5):
                    calls = []

                    def sampler(s, _seq=seq, _c=calls):
                        _c.append(1)
                        return menu[_seq[len(_c) - 1]]

                    cfg = BootstrapConfig(nb_samples=n, sampling_method=sampler, bootstrap_method=method)
                    case = {"kind": "corners", "pattern": "replicates one ulp around the estimate", "estimate": float(est), "sequence": list(seq),
                            "replicates": want.tolist(), "method": method, "alpha": alpha}
                    ctx.state()
                    if 0 in seq or 2 in seq:
                        ctx.nontrivial()
                    ok, ci = guarded(ctx, "bootstrap_ci", case, lambda: src.bootstrap_ci(metric, alpha, cfg, scale=4.0))
                    ctx.tick()
                    if not ok:
                        continue
                    wref, skip = ref_ci(want, est, alpha, method)
                    if skip.any():
                        ctx.add("ci_skipped_ill_conditioned")
                        continue
                    ctx.outcome((k, tuple(seq), method, alpha))
                    if not np.allclose(np.asarray(ci, dtype=float), wref, rtol=0, atol=1e-12):
                        ctx.fail("ci-equals-formula-on-replicates", case, observed=ci, expected=wref)
    ctx.sample({"kind": "corners", "which": k, "menu": [table[id(m)] for m in menu]})
    return None


def _run_builtin(item, ctx, b):
    from score_analysis import BootstrapConfig, GroupScores, Scores

    class PercentScores(Scores):
        """A user's subclass: overrides a metric and adds one. The built-in samplers return plain Scores objects, the
        metric *name* must still be resolved on this class."""

        def tpr(self, threshold):
            return 100.0 * np.asarray(Scores.tpr(self, threshold))

        def fnr_percent(self, threshold):
            return 100.0 * np.asarray(Scores.fnr(self, threshold))

    srcs = [
        lambda: Scores([2.0, 0.5], [1.0], nb_easy_pos=1),
        lambda: Scores([1.0, 3.0], [2.0, 0.0], score_class="neg"),
        lambda: GroupScores(pos=[2.0, 0.5], neg=[1.0, 1.5], pos_groups=["a", "b"], neg_groups=["b", "a"]),
        lambda: PercentScores([2.0, 0.5], [1.0], nb_easy_neg=1),
        lambda: Scores([1.0], [0.0, 2.0], nb_easy_neg=2, equal_class="neg"),
        lambda: Scores([1.0, 2.0, 2.0], [0.0, 2.0]),
    ]
    make = srcs[item["which"] % len(srcs)]
    src = make()
    is_group = hasattr(src, "pos_groups")
    thr = np.array([0.75, 1.0, 2.0])
    metrics = [("fnr", {"threshold": thr}), ("tpr", {"threshold": 1.0})]
    if is_group:
        metrics.append(("group_fnr", {"threshold": thr}))
    if type(src).__name__ == "PercentScores":
        metrics = [("tpr", {"threshold": 1.0}), ("fnr_percent", {"threshold": thr})]
    modes = [("replacement", None), ("replacement", "by_label"), ("single_pass", "by_label"), ("dynamic", None)]
    if is_group:
        modes.append(("replacement", "by_group"))
    for method, strat in modes:
        for n in b["builtin_nb_samples"]:
            if n > 1 and method != "replacement":
                continue
            if n > 2 and strat is None:
                continue
            cfg = BootstrapConfig(nb_samples=n, sampling_method=ot.string_kinds(method)[n % 3][1],
                                  stratified_sampling=None if strat is None else ot.string_kinds(strat)[(n + 1) % 3][1])
            for mname, kw in metrics[:1] if n > 1 else metrics:
                case = {"source": item["which"], "method": method, "stratified": strat, "nb_samples": n, "metric": mname}
                ctx.state()
                leaves, mass = 0, 0.0

                def fn(orc):
                    return src.bootstrap_metric(mname, config=cfg, **kw)

                try:
                    for orc, rows in rngtree.explore(fn, observe=lambda r: np.asarray(r).tobytes(), twice=True):
                        leaves += 1
                        mass += orc.prob
                        ctx.tick()
                        c2 = dict(case, answers=orc.choices)
                        if orc.nondeterministic:
                            ctx.fail("reproducible-given-answers", c2, observed="second run differs", expected="identical")
                        rows = np.asarray(rows, dtype=float)
                        # feed the very same answers to n direct bootstrap_sample calls
                        orc2 = rngtree.Oracle(orc.choices)
                        with rngtree.owned(orc2):
                            samples = [src.bootstrap_sample(cfg) for _ in range(n)]
                        # the name is resolved on the class of the object that was asked (not on the class of the sample)
                        want = np.stack([np.asarray(getattr(type(src), mname)(s, **kw), dtype=float) for s in samples], axis=0)
                        if len(orc2.trace) != len(orc.trace):
                            ctx.fail("nothing-else-consumes-randomness", c2, observed=len(orc.trace), expected=len(orc2.trace))
                        elif not _eq(rows, want):
                            ctx.fail("rows-are-metrics-of-sampler-output-in-order", c2, observed=rows, expected=want)
                        if len({r.tobytes() for r in rows}) > 1:
                            ctx.nontrivial()
                except rngtree.UnownedRNG as e:
                    raise HarnessError(str(e))
                ctx.add("leaves", leaves)
                ctx.outcome((item["which"], method, strat, n, leaves))
                if abs(mass - 1.0) > 1e-9:
                    ctx.fail("leaf-probabilities-sum-to-one", case, observed=mass, expected=1.0)
                else:
                    ctx.add("complete_answer_trees_with_leaf_mass_1")
    ctx.sample({"kind": "builtin", "source": item["which"], "modes": [list(map(str, m)) for m in modes]})
    return None


def _large_group_source():
    from score_analysis import GroupScores

    r = np.random.default_rng(99)
    pos = np.round(r.normal(1.0, 1.0, 230), 3)
    neg = np.round(r.normal(0.0, 1.0, 215), 3)
    return GroupScores(pos=pos, neg=neg, pos_groups=["a"] * 110 + ["b"] * 120, neg_groups=["a"] * 105 + ["b"] * 110)


def _run_seeds(item, ctx, seed):
    from score_analysis import BootstrapConfig

    # a GroupScores object beyond the size at which 'dynamic' switches method: rows of bootstrap_metric must be
    # the metric on exactly the samples bootstrap_sample(config) produces from the same RNG state
    big = _large_group_source()
    for method, strat in (("dynamic", "by_group"), ("dynamic", None), ("dynamic", "by_label"), ("single_pass", None)):
        for sd in (seed, seed + 1):
            for mname, kw in (("group_fnr", {"threshold": np.array([0.0, 0.5])}), ("fpr", {"threshold": 0.5})):
                cfg = BootstrapConfig(nb_samples=3, sampling_method=method, stratified_sampling=strat, bootstrap_method="quantile")
                case = {"source": "groupscores-230x215", "seed": sd, "method": method, "stratified": strat, "metric": mname}
                ctx.state()
                ctx.nontrivial()
                st = np.random.get_state()
                try:
                    np.random.seed(sd)
                    rows = np.asarray(big.bootstrap_metric(mname, config=cfg, **kw), dtype=float)
                    np.random.seed(sd)
                    samples = [big.bootstrap_sample(cfg) for _ in range(3)]
                    manual = np.stack([np.asarray(getattr(type(s_), mname)(s_, **kw), dtype=float) for s_ in samples], axis=0)
                    ctx.tick(2)
                except Exception as e:  # noqa
                    ctx.fail("unexpected-exception:seeded-large", case, observed=repr(e), expected="no exception")
                    continue
                finally:
                    np.random.set_state(st)
                if not _eq(rows, manual):
                    ctx.fail("rows-are-metrics-of-sampler-output-in-order", case, observed=rows, expected=manual)
    for name, make in sources().items():
        src = make()
        specs = metric_specs(name)
        for sd in (seed, seed + 1, seed + 2):
            for method, strat in (("dynamic", None), ("replacement", "by_label"), ("single_pass", None)):
                for label, metric, kw in specs[:5]:
                    cfg = BootstrapConfig(nb_samples=4, sampling_method=method, stratified_sampling=strat, bootstrap_method="bca")
                    case = {"source": name, "seed": sd, "method": method, "stratified": strat, "metric": label}
                    ctx.state()
                    st = np.random.get_state()
                    try:
                        out = []
                        for _ in range(2):
                            np.random.seed(sd)
                            rows = np.asarray(src.bootstrap_metric(metric, config=cfg, **kw), dtype=float)
                            np.random.seed(sd)
                            ci = np.asarray(src.bootstrap_ci(metric, 0.1, cfg, **kw), dtype=float)
                            out.append((rows, ci))
                            ctx.tick(2)
                        np.random.seed(sd)
                        samples = [src.bootstrap_sample(cfg) for _ in range(4)]
                        manual = np.stack([evaluate(metric, s, kw).astype(float) for s in samples], axis=0)
                        ctx.tick()
                    except Exception as e:  # noqa
                        ctx.fail("unexpected-exception:seeded", case, observed=repr(e), expected="no exception")
                        continue
                    finally:
                        np.random.set_state(st)
                    if not (_eq(out[0][0], out[1][0]) and _eq(out[0][1], out[1][1])):
                        ctx.fail("fixed-seed-reproducible", case, observed="two runs differ", expected="identical")
                    if not _eq(out[0][0], manual):
                        ctx.fail("rows-are-metrics-of-sampler-output-in-order", case, observed=out[0][0], expected=manual)
                    if len({r.tobytes() for r in out[0][0]}) > 1:
                        ctx.nontrivial()
                    ctx.outcome((name, sd, method, label, out[0][0].tobytes()))
    ctx.sample({"kind": "seeds", "seeds": [seed, seed + 1, seed + 2]})
    return None


def _run_history(item, ctx):
    from score_analysis import BootstrapConfig

    for name, make in sources().items():
        probe = make()
        specs = metric_specs(name)

        def make_env():
            return {"T": np.array([0.0, 2.0, 2.5]), "r": np.array([0.25, 0.5])}

        events = [("cm", lambda o, e: o.cm(e["T"])), ("fnr", lambda o, e: o.fnr(e["T"])),
                  ("eer", lambda o, e: o.eer()), ("threshold_at_fpr", lambda o, e: o.threshold_at_fpr(e["r"]))]
        if hasattr(probe, "pos_groups"):
            for g_ in list(probe.groups)[::-1]:
                events.append((f"getitem[{g_}]", lambda o, e, g_=g_: o[g_]))
            events.append(("group_fnr", lambda o, e: o.group_fnr(e["T"])))
        modes = [("dynamic", None), ("replacement", "by_label")]
        if hasattr(probe, "pos_groups"):
            modes.append(("replacement", "by_group"))
        for (label, metric, kw) in specs[:3]:
            for method, strat in modes:
                def ev(o, e, metric=metric, kw=kw, method=method, strat=strat):
                    st = np.random.get_state()
                    np.random.seed(7)
                    try:
                        cfg = BootstrapConfig(nb_samples=3, sampling_method=method, stratified_sampling=strat,
                                              bootstrap_method="bc")
                        return (o.bootstrap_metric(metric, config=cfg, **kw), o.bootstrap_ci(metric, 0.2, cfg, **kw))
                    finally:
                        np.random.set_state(st)
                events.append((f"bootstrap[{label},{method},{strat}]", ev))
        case = {"kind": "history", "source": name, "uses_global_rng": False}
        res = opgraph.explore(make, make_env, events, opgraph.snapshot_scores, ctx, case, max_states=16)
        ctx.state(res["states"])
        ctx.nontrivial(max(res["states"] - 1, 0))
        if not res["fixpoint"]:
            ctx.add("caps_hit")
        ctx.sample({"kind": "history", "source": name, "events": [n for n, _ in events], "result": res})
    return None

"""C08 - results are symmetric under class swap, direction reversal and rescaling."""

from __future__ import annotations

import math

import numpy as np

from mc import ordertypes as ot
from mc.harness import guarded
from mc.props.thresh_common import METRICS

ID = "C08"
TITLE = "Results are symmetric under class swap, direction reversal and rescaling"
ENGINE = "order-type-explorer"
RULE = (
    "state = (order type, concretisation, cfg, easy counts); transition = one pair of API calls on the original "
    "and on the transformed object (swap / negation+flipped score_class / affine map) compared with each other; "
    "non-trivial = both classes non-empty and (ties present or easy samples present or cfg != (pos,pos)); "
    "distinct by construction"
)
ASSUMPTIONS = [
    "affine maps a in {1/2,2,3}, b in {-3,1/4,100} applied to dyadic/irregular grids (exact in floating point)",
    "rates are compared at corresponding points of the relative threshold alphabet (the map is applied at the "
    "abstract level so that ulp neighbours stay ulp neighbours)",
    "threshold equivariance to 1e-9 of the score scale (method linear); EER threshold 1e-6 of the range, tie-free only",
]
AFFINE = [(0.5, -3.0), (2.0, 0.25), (3.0, 100.0)]
SWAPPED = {"fpr": "fnr", "tpr": "tnr", "topr": "tonr", "fnr": "fpr", "tnr": "tpr", "tonr": "topr"}


def bounds(tier):
    if tier == "quick":
        return {"max_pos": 3, "max_neg": 3, "easy": [[0, 0], [1, 2], [3, 0]], "grids": ["irregular", "dyadic", "int", "ulp", "mixed"],
                "affine": AFFINE}
    return {"max_pos": 4, "max_neg": 4, "easy": [[0, 0], [1, 2], [3, 0], [0, 1], [2, 2]],
            "grids": ["irregular", "dyadic", "int", "ulp", "mixed"], "affine": AFFINE}


def work(tier, seed):
    b = bounds(tier)
    return [{"blocks": [list(x) for x in bl], "grid": g}
            for bl in ot.order_types(b["max_pos"], b["max_neg"]) for g in b["grids"]]


def _flip(c):
    return "neg" if c == "pos" else "pos"


def _close(a, b, tol):
    if isinstance(a, float) and math.isnan(a):
        return isinstance(b, float) and math.isnan(b)
    return abs(a - b) <= tol


def run(item, ctx, tier, seed):
    from score_analysis import GroupScores, Scores

    b = bounds(tier)
    blocks = [tuple(x) for x in item["blocks"]]
    if item["grid"] == "mixed":  # integer positives, float negatives: the classes are stored in different dtypes
        pos, neg, vals, _, _ = ot.concretise_mixed(blocks, "mixed")
        neg = [float(x) for x in neg]
    else:
        pos, neg, vals = ot.concretise(blocks, item["grid"], seed)
    T = ot.threshold_alphabet(vals)
    if item["grid"] in ("int", "mixed"):
        T = T + ot.INT_SENTINELS
    Tarr = np.array(T)
    both = bool(pos) and bool(neg)
    anytie = any(a + c > 1 for a, c in blocks)
    tie_free = not anytie
    scale = max([1.0] + [abs(float(v)) for v in vals])
    rng_ = (max(vals) - min(vals)) if vals else 1.0
    for cfg in ot.CFGS:
        sc, ec = cfg
        for ep, en in [tuple(e) for e in b["easy"]]:
            case = {"blocks": item["blocks"], "grid": item["grid"], "pos": pos, "neg": neg, "cfg": cfg,
                    "easy": [ep, en]}
            ok, s = guarded(ctx, "construct", case, Scores, pos[::-1], neg[::-1], nb_easy_pos=ep, nb_easy_neg=en,
                            score_class=sc, equal_class=ec)
            if not ok:
                continue
            ctx.state()
            nontriv = both and (anytie or ep + en > 0 or cfg != ("pos", "pos"))
            m0 = s.cm(Tarr).matrix
            ctx.outcome((cfg, ep, en, m0.tobytes()))
            if item["grid"] == "irregular" and (ep, en) == tuple(b["easy"][0]) and both:
                from mc.derived import check_input_independence

                check_input_independence(ctx, case, pos, neg, dict(nb_easy_pos=ep, nb_easy_neg=en, score_class=sc, equal_class=ec),
                                         lambda o: (o.cm(Tarr).matrix, o.threshold_at_fnr(np.array([0.0, 0.3, 1.0])), o.swap().cm(Tarr).matrix))
            # ------------------------------------------------------------ swap
            ok, sw = guarded(ctx, "swap", case, s.swap)
            if ok:
                ok, m1 = guarded(ctx, "swap-cm", case, lambda: sw.cm(Tarr).matrix)
                ctx.tick(len(T))
                if nontriv:
                    ctx.nontrivial(len(T))
                if ok:
                    exp = m0[:, ::-1, ::-1]
                    if not np.array_equal(m1, exp):
                        k = int(np.argmax(np.any(m1 != exp, axis=(1, 2))))
                        ctx.fail("swap-mirrors-matrix", dict(case, threshold=T[k]), observed=m1[k], expected=exp[k],
                                 snippet=("from score_analysis import Scores\n"
                                          f"s = Scores({pos!r}, {neg!r}, nb_easy_pos={ep}, nb_easy_neg={en}, "
                                          f"score_class={sc!r}, equal_class={ec!r})\n"
                                          f"print(s.cm({T[k]!r}).matrix, s.swap().cm({T[k]!r}).matrix)\n"))
                for a_, b_ in SWAPPED.items():
                    ok, (ra, rb) = guarded(ctx, "swap-rates", dict(case, metric=a_),
                                           lambda: (getattr(s, a_)(Tarr), getattr(sw, b_)(Tarr)))
                    ctx.tick()
                    if ok and not np.array_equal(np.asarray(ra), np.asarray(rb), equal_nan=True):
                        ctx.fail("swap-exchanges-rates", dict(case, metric=a_, swapped_metric=b_), observed=rb,
                                 expected=ra)
                if getattr(sw, "nb_easy_pos", None) != en or getattr(sw, "nb_easy_neg", None) != ep:
                    ctx.fail("swap-easy-counts", case, observed=[sw.nb_easy_pos, sw.nb_easy_neg], expected=[en, ep])
            # -------------------------------------------------------- negation
            npos, nneg = [-x for x in pos], [-x for x in neg]
            ok, sn = guarded(ctx, "negate-construct", case, Scores, npos, nneg, nb_easy_pos=ep, nb_easy_neg=en,
                             score_class=_flip(sc), equal_class=ec)
            if not ok:
                sn = None
            if ok:
                ok, mn = guarded(ctx, "negate-cm", case, lambda: sn.cm(-Tarr).matrix)
                ctx.tick(len(T))
                if ok and not np.array_equal(mn, m0):
                    k = int(np.argmax(np.any(mn != m0, axis=(1, 2))))
                    ctx.fail("negation-leaves-matrix-unchanged", dict(case, threshold=T[k]), observed=mn[k],
                             expected=m0[k])
            if ok and sn is not None and vals and item["grid"] in ("int", "mixed"):
                # one sentinel at a time (a scalar call, and an array in which every element fits the integer type)
                for t in ot.INT_SENTINELS:
                    for arg_kind, a1, a2 in (("scalar", t, -t), ("array", np.array([t, float(vals[0])]), np.array([-t, -float(vals[0])]))):
                        ok_s, (x1, x2) = guarded(ctx, "negate-cm", dict(case, threshold=t, passed_as=arg_kind), lambda: (
                            np.asarray(s.cm(a1).matrix).reshape(-1, 2, 2)[0], np.asarray(sn.cm(a2).matrix).reshape(-1, 2, 2)[0]))
                        ctx.tick()
                        if ok_s and not np.array_equal(x1, x2):
                            ctx.fail("negation-leaves-matrix-unchanged", dict(case, threshold=t, passed_as=arg_kind), observed=x2, expected=x1)
                            break
            # ---------------------------------------- the same relations on an object that is updated in place
            if item["grid"] in ("irregular", "int") and (ep, en) == tuple(b["easy"][1 if len(b["easy"]) > 1 else 0]) and both:
                # (a) swap() - re-bind the scores and easy counts - swap() again: the second twin mirrors the *current* object
                ok, o = guarded(ctx, "construct", case, Scores, [2 * x + 1 for x in pos], [2 * x + 1 for x in neg], nb_easy_pos=ep + 1,
                                nb_easy_neg=en, score_class=sc, equal_class=ec)
                if ok:
                    guarded(ctx, "swap", case, lambda: o.swap().cm(Tarr).matrix)
                    o.pos, o.neg = np.array(sorted(pos), dtype=np.asarray(s.pos).dtype), np.array(sorted(neg), dtype=np.asarray(s.neg).dtype)
                    o.nb_easy_pos, o.nb_easy_neg = ep, en
                    ok, m2 = guarded(ctx, "swap-cm", case, lambda: o.swap().cm(Tarr).matrix)
                    ctx.tick(len(T))
                    if ok and not np.array_equal(m2, m0[:, ::-1, ::-1]):
                        k = int(np.argmax(np.any(m2 != m0[:, ::-1, ::-1], axis=(1, 2))))
                        ctx.fail("swap-mirrors-matrix", dict(case, threshold=T[k], history="swap(); assign pos/neg/easy counts; swap()"),
                                 observed=m2[k], expected=m0[:, ::-1, ::-1][k])
                # (b) direction reversal in place: negate the scores, assign the other score_class (as the string the
                #     constructor accepts), then ask for thresholds / EER / matrices
                if ok and sn is not None:
                    for label_kind in ("string", "enum"):
                        ok_r, r_ = guarded(ctx, "construct", case, Scores, pos, neg, nb_easy_pos=ep, nb_easy_neg=en, score_class=sc, equal_class=ec)
                        if not ok_r:
                            continue
                        guarded(ctx, "warm-up", case, lambda: (r_.threshold_at_fnr(0.3), r_.eer()))
                        r_.pos, r_.neg = np.sort(-np.asarray(r_.pos)), np.sort(-np.asarray(r_.neg))
                        r_.score_class = _flip(sc) if label_kind == "string" else type(s.score_class)(_flip(sc))
                        c2 = dict(case, history=f"negate pos/neg in place; score_class = {_flip(sc)!r} ({label_kind})")
                        ok1, mr = guarded(ctx, "negate-cm", c2, lambda: r_.cm(-Tarr).matrix)
                        ctx.tick(len(T))
                        if ok1 and not np.array_equal(mr, m0):
                            ctx.fail("negation-leaves-matrix-unchanged", c2, observed="differs", expected="equal")
                        tg_ = np.array([0.0, 0.2, 0.5, 0.85, 1.0])
                        for metric in ("fnr", "fpr", "topr"):
                            ok2, (ta, tb) = guarded(ctx, "threshold", dict(c2, metric=metric), lambda: (
                                np.asarray(getattr(r_, "threshold_at_" + metric)(tg_), dtype=float),
                                np.asarray(getattr(sn, "threshold_at_" + metric)(tg_), dtype=float)))
                            ctx.tick()
                            if ok2 and not np.allclose(ta, tb, rtol=0, atol=1e-9 * scale, equal_nan=True):
                                ctx.fail("negation-negates-thresholds", dict(c2, metric=metric), observed=ta, expected=tb)
                                break
            # ---------------------------------------------------- affine maps
            if item["grid"] == "ulp":
                # scores one ulp apart (1.5, 1.5+ulp, ...): the exact shift by -1.5 pulls them many ulps apart
                maps = [(1.0, -1.5), (2.0, -3.0)]
            elif item["grid"] not in ("int", "mixed"):
                maps = [tuple(m) for m in b["affine"]]
            else:
                maps = [(2, 1), (3, -100)]  # integer maps keep the integer dtype of the scores
            objs = []
            for a_, b_ in maps:
                apos, aneg = [a_ * x + b_ for x in pos], [a_ * x + b_ for x in neg]
                avals = [a_ * v + b_ for v in vals]
                if len(set(avals)) != len(vals):  # pragma: no cover - grids are chosen to be exact
                    continue
                ok, sa = guarded(ctx, "affine-construct", dict(case, a=a_, b=b_), Scores, apos, aneg,
                                 nb_easy_pos=ep, nb_easy_neg=en, score_class=sc, equal_class=ec)
                if not ok:
                    continue
                TA = np.array(ot.threshold_alphabet(avals))
                if len(TA) == len(T):
                    ok, ma = guarded(ctx, "affine-cm", dict(case, a=a_, b=b_), lambda: sa.cm(TA).matrix)
                    ctx.tick(len(T))
                    if ok and not np.array_equal(ma, m0):
                        ctx.fail("affine-leaves-rates-unchanged", dict(case, a=a_, b=b_), observed=ma, expected=m0)
                objs.append((a_, b_, sa))
            # threshold setting under negation / affine maps
            for metric in METRICS:
                if metric in ("tpr", "fnr") and not pos:
                    continue
                if metric in ("tnr", "fpr") and not neg:
                    continue
                if not pos and not neg:
                    continue
                n = {"tpr": len(pos) + ep, "fnr": len(pos) + ep, "tnr": len(neg) + en, "fpr": len(neg) + en}.get(
                    metric, len(pos) + len(neg) + ep + en)
                targets = np.array(sorted(ot.target_alphabet(n, seed, quarter=False)))
                ok, t0 = guarded(ctx, "threshold", dict(case, metric=metric),
                                 lambda: np.asarray(getattr(s, "threshold_at_" + metric)(targets), dtype=float))
                if not ok:
                    continue
                if ok and sn is not None:
                    ok2, tn_ = guarded(ctx, "negate-threshold", dict(case, metric=metric),
                                       lambda: np.asarray(getattr(sn, "threshold_at_" + metric)(targets), dtype=float))
                    ctx.tick(len(targets))
                    if nontriv:
                        ctx.nontrivial(len(targets))
                    if ok2:
                        tol = 1e-9 * max(scale, rng_)
                        bad = np.abs(tn_ + t0) > tol
                        if bad.any():
                            k = int(np.argmax(bad))
                            ctx.fail("negation-negates-thresholds", dict(case, metric=metric, r=float(targets[k])),
                                     observed=float(tn_[k]), expected=-float(t0[k]))
                for a_, b_, sa in objs:
                    for method in ("linear", "lower", "higher"):
                        if method == "linear":
                            tm0 = t0
                        else:
                            okm, tm0 = guarded(ctx, "threshold", dict(case, metric=metric, method=method),
                                               lambda: np.asarray(getattr(s, "threshold_at_" + metric)(targets, method=method), dtype=float))
                            if not okm:
                                continue
                        ok2, ta = guarded(ctx, "affine-threshold", dict(case, metric=metric, a=a_, b=b_, method=method),
                                          lambda: np.asarray(getattr(sa, "threshold_at_" + metric)(targets, method=method), dtype=float))
                        ctx.tick(len(targets))
                        if ok2:
                            tol = 1e-9 * (a_ * max(scale, rng_) + abs(b_))
                            diff = np.abs(ta - (a_ * tm0 + b_))
                            if method != "linear":
                                # lower/higher are discontinuous at grid targets: judge off-grid targets only
                                x = targets * n
                                diff = np.where(np.abs(x - np.round(x)) < 1e-6, 0.0, diff)
                            bad = diff > tol
                            if bad.any():
                                k = int(np.argmax(bad))
                                ctx.fail("affine-maps-thresholds", dict(case, metric=metric, r=float(targets[k]), a=a_, b=b_, method=method),
                                         observed=float(ta[k]), expected=a_ * float(tm0[k]) + b_)
                                break
            # EER / AUC (no EER clauses on the one-ulp grid: thresholds cannot be interpolated between adjacent
            # floats, so such scores behave like ties for the EER search - cf. D12)
            if both and item["grid"] == "ulp":
                ok_a, auc0 = guarded(ctx, "auc", case, lambda: float(s.auc()))
                for a_, b_, sa in objs:
                    if ok_a:
                        ok3, auca = guarded(ctx, "affine-auc", dict(case, a=a_, b=b_), lambda: float(sa.auc()))
                        ctx.tick()
                        if ok3 and not abs(auca - auc0) <= 1e-9:
                            ctx.fail("affine-leaves-auc-unchanged", dict(case, a=a_, b=b_), observed=auca, expected=auc0)
            elif both:
                ok, (t_e, e) = guarded(ctx, "eer", case, s.eer)
                ok_a, auc0 = guarded(ctx, "auc", case, lambda: float(s.auc()))
                if ok:
                    for a_, b_, sa in objs:
                        ok2, (ta, ea) = guarded(ctx, "affine-eer", dict(case, a=a_, b=b_), sa.eer)
                        ctx.tick()
                        if ok2:
                            if not abs(ea - e) <= 1e-9:
                                ctx.fail("affine-leaves-eer-unchanged", dict(case, a=a_, b=b_), observed=ea, expected=e)
                            if tie_free and not abs(ta - (a_ * t_e + b_)) <= 1e-6 * a_ * max(rng_, 1.0) + 1e-9 * abs(b_):
                                ctx.fail("affine-maps-eer-threshold", dict(case, a=a_, b=b_), observed=ta,
                                         expected=a_ * t_e + b_)
                        if ok_a:
                            ok3, auca = guarded(ctx, "affine-auc", dict(case, a=a_, b=b_), lambda: float(sa.auc()))
                            ctx.tick()
                            if ok3 and not abs(auca - auc0) <= 1e-9:
                                ctx.fail("affine-leaves-auc-unchanged", dict(case, a=a_, b=b_), observed=auca, expected=auc0)
                    if sn is not None and tie_free:
                        ok2, (tn_e, en_e) = guarded(ctx, "negate-eer", case, sn.eer)
                        ctx.tick()
                        if ok2:
                            if not abs(en_e - e) <= 1e-9:
                                ctx.fail("negation-leaves-eer-unchanged", case, observed=en_e, expected=e)
                            if not abs(tn_e + t_e) <= 1e-6 * max(rng_, 1.0):
                                ctx.fail("negation-negates-eer-threshold", case, observed=tn_e, expected=-t_e)
                if ok_a and sn is not None:
                    ok3, aucn = guarded(ctx, "negate-auc", case, lambda: float(sn.auc()))
                    ctx.tick()
                    if ok3 and not abs(aucn - auc0) <= 1e-9:
                        ctx.fail("negation-leaves-auc-unchanged", case, observed=aucn, expected=auc0)
        # ------------------------------------------------ GroupScores.swap variant
        if pos or neg:
            pg = [("a", "b", "c")[i % 3] for i in range(len(pos))]
            ng = [("b", "c", "a")[i % 3] for i in range(len(neg))]
            case = {"blocks": item["blocks"], "grid": item["grid"], "pos": pos, "neg": neg, "cfg": cfg,
                    "pos_groups": pg, "neg_groups": ng}
            ok, g = guarded(ctx, "group-construct", case, GroupScores, pos[::-1], neg[::-1], pos_groups=pg[::-1],
                            neg_groups=ng[::-1], score_class=sc, equal_class=ec)
            if ok:
                ctx.state()
                ok, gs = guarded(ctx, "group-swap", case, g.swap)
                if ok:
                    ok, (ma, mb, ga, gb) = guarded(ctx, "group-swap-cm", case, lambda: (
                        g.cm(Tarr).matrix, gs.cm(Tarr).matrix, g.group_cm(Tarr).matrix, gs.group_cm(Tarr).matrix))
                    ctx.tick(2 * len(T))
                    if ok:
                        if not np.array_equal(mb, ma[:, ::-1, ::-1]):
                            ctx.fail("group-swap-mirrors-matrix", case, observed=mb, expected=ma[:, ::-1, ::-1])
                        if not np.array_equal(gb, ga[..., ::-1, ::-1]):
                            ctx.fail("group-swap-mirrors-group-matrices", case, observed=gb, expected=ga[..., ::-1, ::-1])
                # the groups were materialised on the original above (group_cm): a *second* swap, taken now, must mirror as well,
                # and so must the per-group objects and rates
                ok, gs2 = guarded(ctx, "group-swap", case, g.swap)
                if ok:
                    c2 = dict(case, history="group_cm / indexing on the original first, then swap()")
                    ok, (ga2, gb2) = guarded(ctx, "group-swap-cm", c2, lambda: (g.group_cm(Tarr).matrix, gs2.group_cm(Tarr).matrix))
                    ctx.tick(len(T))
                    if ok and not np.array_equal(gb2, ga2[..., ::-1, ::-1]):
                        ctx.fail("group-swap-mirrors-group-matrices", c2, observed=gb2, expected=ga2[..., ::-1, ::-1])
                    for gname in sorted(set(pg) | set(ng)):
                        ok, (ra, rb) = guarded(ctx, "group-swap-rates", dict(c2, group=gname), lambda: (
                            np.asarray(g[gname].fpr(Tarr), dtype=float), np.asarray(gs2[gname].fnr(Tarr), dtype=float)))
                        ctx.tick()
                        if ok and not np.array_equal(ra, rb, equal_nan=True):
                            ctx.fail("swap-exchanges-rates", dict(c2, group=gname, metric="fpr", swapped_metric="fnr"), observed=rb, expected=ra)
                            break
    ctx.sample({"blocks": item["blocks"], "grid": item["grid"], "pos": pos, "neg": neg, "affine": b["affine"]})


def _m_eer_cross_ties(rec):
    """D12: EER of data with a value shared between the classes is rounding-dependent."""
    if rec["clause"] != "affine-leaves-eer-unchanged":
        return False
    blocks = rec["case"].get("blocks") or []
    return any(a > 0 and c > 0 for a, c in blocks)


MATCHERS = {"c08_eer_cross_ties": _m_eer_cross_ties}

"""C07 - AUC equals the Mann-Whitney statistic; partial AUC is the exact step-ROC area."""

from __future__ import annotations

import random
from fractions import Fraction as F

import numpy as np

from mc import ordertypes as ot
from mc import refs
from mc.harness import guarded

ID = "C07"
TITLE = "AUC equals the Mann-Whitney statistic; partial AUC is the exact step-ROC area"
ENGINE = "order-type-explorer"
RULE = (
    "state = (order type, concretisation, cfg, easy counts); transition = one auc() call compared with the exact "
    "rational reference (Mann-Whitney pairs / step area) or with another auc() call (complements, additivity); "
    "non-trivial = the dataset has a tie, or the interval cuts strictly inside the FPR range; distinct by construction"
)
ASSUMPTIONS = [
    "reference models use exact rationals; comparison tolerance 1e-9",
    "partial-AUC clauses only on states without cross-class ties (as the property states)",
    "interval end points from a finite menu incl. one seed-chosen pair",
]

BASE_INTERVALS = [
    (F(0), F(1)), (F(0), F(1, 2)), (F(1, 2), F(1)), (F(1, 4), F(3, 4)), (F(1, 10), F(1, 5)),
    (F(1, 3), F(2, 3)), (F(3, 10), F(3, 10)), (F(0), F(1, 4)), (F(3, 4), F(1)),
    # narrow but not empty (the area is judged to 1e-6 of the width, see NARROW)
    (F(3, 5), F(3, 5) + F(1, 250000)), (F(1, 4), F(1, 4) + F(1, 10**8)), (F(1) - F(1, 10**6), F(1)),
]
NARROW = F(1, 1000)


HUGE_EASY = [(3_000_000_000, 1), (0, 5_000_000_000)]  # class totals beyond 2^31 / 2^32 (counted, never held)


def bounds(tier):
    if tier == "quick":
        return {"max_pos": 3, "max_neg": 3, "easy": [[0, 0], [1, 0], [0, 2], [2, 2]],
                "grids": ["irregular", "int", "uint", "float32", "ulp", "ulp_pow2", "symmetric", "mixed_narrow", "mixed_f32"], "intervals": len(BASE_INTERVALS) + 1}
    return {"max_pos": 4, "max_neg": 4, "easy": [[a, b] for a in range(4) for b in range(4)],
            "grids": ["irregular", "int", "dyadic", "ulp", "ulp_pow2", "symmetric", "uint", "float32"] + ot.MIXED_KINDS, "intervals": len(BASE_INTERVALS) + 1}


def intervals(seed, tier="quick"):
    rnd = random.Random(seed * 31 + 5)
    a, b = sorted([F(rnd.randint(0, 40), 40), F(rnd.randint(0, 40), 40)])
    out = BASE_INTERVALS + [(a, b)]
    if tier == "thorough":  # every pair of eighths, and of sixths (the k/N grids of the enumerated class sizes)
        for d in (8, 6):
            out += [(F(i, d), F(j, d)) for i in range(d + 1) for j in range(i, d + 1)]
        out = list(dict.fromkeys(out))
    return out


def work(tier, seed):
    b = bounds(tier)
    items = [{"ladder": n} for n in (ot.LADDER_QUICK if tier == "quick" else ot.LADDER_THOROUGH[:-1])]
    if np.finfo(np.longdouble).eps < np.finfo(float).eps:
        # long double scores closer together than one double-precision ulp: still distinct, still ordered
        for bl in ot.order_types(2, 2, 1, 1) if tier == "quick" else ot.order_types(3, 3, 1, 1):
            items.append({"longdouble": [list(x) for x in bl]})
    for bl in ot.order_types(b["max_pos"], b["max_neg"], 1, 1):
        # thorough: data sets of up to 6 samples get every grid, easy count and interval pair; the 4,600 larger
        # order types the three main grids with the quick menus
        full = tier == "quick" or sum(a + c for a, c in bl) <= 6
        for g in (b["grids"] if full else ["irregular", "int", "ulp_pow2"]):
            items.append({"blocks": [list(x) for x in bl], "grid": g, "full": full})
    return items


def _snip(pos, neg, cfg, ep, en, call):
    return ("from score_analysis import Scores\n"
            f"s = Scores({pos!r}, {neg!r}, nb_easy_pos={ep}, nb_easy_neg={en}, score_class={cfg[0]!r}, "
            f"equal_class={cfg[1]!r})\nprint(s.{call})\n")


def run(item, ctx, tier, seed):
    from score_analysis import Scores

    b = bounds(tier)
    if "ladder" in item:
        return _run_ladder(item, ctx, seed)
    if "longdouble" in item:
        return _run_longdouble(item, ctx)
    blocks = [tuple(x) for x in item["blocks"]]

    gkind = item["grid"]
    if gkind in ot.MIXED_KINDS:
        pos, neg, vals, parr_, narr_ = ot.concretise_mixed(blocks, gkind)
    else:
        pos, neg, vals = ot.concretise(blocks, "irregular" if gkind == "float32" else gkind, seed)
    dt = {"uint": np.uint8, "float32": np.float32}.get(gkind)
    cross = any(a > 0 and c > 0 for a, c in blocks)
    anytie = any(a + c > 1 for a, c in blocks)
    full = item.get("full", True)
    ivs = intervals(seed, tier if full else "quick")
    if not full:
        b = dict(b, easy=bounds("quick")["easy"])
    TOL = 1e-9
    for cfg in ot.CFGS:
        sc, ec = cfg
        for ep, en in [tuple(e) for e in b["easy"]] + (HUGE_EASY if gkind in ("irregular", "int") else []):
            case = {"blocks": item["blocks"], "grid": item["grid"], "pos": pos, "neg": neg, "cfg": cfg,
                    "easy": [ep, en]}
            pin, nin = (pos[::-1], neg[::-1]) if dt is None else (np.array(pos[::-1], dtype=dt), np.array(neg[::-1], dtype=dt))
            if gkind in ot.MIXED_KINDS:
                pin, nin = parr_.copy(), narr_.copy()
            ok, s = guarded(ctx, "construct", case, Scores, pin, nin, nb_easy_pos=ep, nb_easy_neg=en,
                            score_class=sc, equal_class=ec)
            if not ok:
                continue
            ctx.state()
            if gkind == "irregular" and (ep, en) == tuple(b["easy"][0]):
                from mc.derived import check_input_independence

                check_input_independence(ctx, case, pos, neg, dict(nb_easy_pos=ep, nb_easy_neg=en, score_class=sc, equal_class=ec),
                                         lambda o: (float(o.auc()), float(o.auc(0.25, 0.75))))
            # --- full AUC == Mann-Whitney -------------------------------------
            want = refs.ref_mann_whitney(pos, neg, sc, ep, en)
            ok, got = guarded(ctx, "auc-full", case, lambda: float(s.auc()))
            ctx.tick()
            if anytie:
                ctx.nontrivial()
            if ok:
                ctx.outcome(("full", round(got, 9)))
                if not abs(got - float(want)) <= TOL:
                    ctx.fail("full-auc-equals-mann-whitney", case, observed=got, expected=float(want),
                             snippet=_snip(pos, neg, cfg, ep, en, "auc()"))
                ok2, got2 = guarded(ctx, "auc-full-explicit", case, lambda: float(s.auc(0.0, 1.0, x_axis="fpr", y_axis="tpr")))
                ctx.tick()
                if ok2 and got2 != got:
                    ctx.fail("auc-defaults", case, observed=got2, expected=got)
                # axes exchanged over the full range = 1 - area (holds with ties as well: trapezoid symmetric)
                ok3, got3 = guarded(ctx, "auc-swapped-axes", case, lambda: float(s.auc(0.0, 1.0, x_axis="tpr", y_axis="fpr")))
                ctx.tick()
                if ok3 and not cross and not abs(got3 - (1 - float(want))) <= TOL:
                    ctx.fail("axes-exchanged-is-one-minus-area", case, observed=got3, expected=1 - float(want),
                             snippet=_snip(pos, neg, cfg, ep, en, "auc(0.0, 1.0, x_axis='tpr', y_axis='fpr')"))
            if cross:
                continue
            # --- partial AUC == exact step area ---------------------------------
            areas = {}
            for lo, hi in ivs:
                c2 = dict(case, lower=str(lo), upper=str(hi))
                ref = refs.ref_step_area(pos, neg, sc, ep, en, lo, hi)
                ok, a = guarded(ctx, "auc-partial", c2, lambda: float(s.auc(float(lo), float(hi))))
                ctx.tick()
                maxfpr = F(len(neg), len(neg) + en)
                if (0 < lo < maxfpr) or (0 < hi < maxfpr):
                    ctx.nontrivial()
                if not ok:
                    continue
                areas[(lo, hi)] = a
                ctx.outcome(("partial", str(lo), str(hi), round(a, 9)))
                if not abs(a - float(ref)) <= (TOL if hi - lo >= NARROW else 1e-6 * float(hi - lo) + 1e-15):
                    ctx.fail("partial-auc-equals-step-area", c2, observed=a, expected=float(ref),
                             snippet=_snip(pos, neg, cfg, ep, en, f"auc({float(lo)!r}, {float(hi)!r})"))
                if a > float(hi - lo) + TOL:
                    ctx.fail("partial-auc-at-most-width", c2, observed=a, expected=float(hi - lo))
                ok, ac = guarded(ctx, "auc-ycomp", c2, lambda: float(s.auc(float(lo), float(hi), y_axis="fnr")))
                ctx.tick()
                if ok and not abs(ac - (float(hi - lo) - a)) <= TOL:
                    ctx.fail("y-complement", c2, observed=ac, expected=float(hi - lo) - a,
                             snippet=_snip(pos, neg, cfg, ep, en, f"auc({float(lo)!r}, {float(hi)!r}, y_axis='fnr')"))
                # (axis names held as run-time built / NumPy strings on alternating states)
                xname = ot.string_kinds("tnr")[(len(pos) + ep) % 3][1]
                ok, ax = guarded(ctx, "auc-xcomp", c2,
                                 lambda: float(s.auc(float(1 - hi), float(1 - lo), x_axis=xname)))
                ctx.tick()
                if ok and not abs(ax - a) <= TOL:
                    ctx.fail("x-complement-mirrors-interval", c2, observed=ax, expected=a,
                             snippet=_snip(pos, neg, cfg, ep, en, f"auc({float(1 - hi)!r}, {float(1 - lo)!r}, x_axis='tnr')"))
                # aliases of the axes
                ok, aa = guarded(ctx, "auc-alias-axes", c2,
                                 lambda: float(s.auc(float(lo), float(hi), x_axis="far", y_axis="tar")))
                ctx.tick()
                if ok and aa != a:
                    ctx.fail("alias-axes", c2, observed=aa, expected=a)
            # additivity over adjacent intervals
            for (l1, h1), (l2, h2), (l3, h3) in [
                ((F(0), F(1, 2)), (F(1, 2), F(1)), (F(0), F(1))),
                ((F(0), F(1, 4)), (F(1, 4), F(3, 4)), (F(0), F(3, 4))),
            ]:
                if (l3, h3) not in areas:
                    ok, a3 = guarded(ctx, "auc-partial", case, lambda: float(s.auc(float(l3), float(h3))))
                    ctx.tick()
                    if not ok:
                        continue
                    areas[(l3, h3)] = a3
                if (l1, h1) in areas and (l2, h2) in areas:
                    tot = areas[(l1, h1)] + areas[(l2, h2)]
                    if not abs(tot - areas[(l3, h3)]) <= TOL:
                        ctx.fail("additive-over-adjacent-intervals", dict(case, parts=[str(l1), str(h1), str(h2)]),
                                 observed=tot, expected=areas[(l3, h3)])
    ctx.sample({"blocks": item["blocks"], "grid": item["grid"], "pos": pos, "neg": neg,
                "intervals": [[str(a), str(c)] for a, c in ivs]})


def _run_longdouble(item, ctx):
    """The AUC depends on the order of the scores only: judged on ranks, data stored as long doubles that differ by
    less than a double-precision ulp (and, as a control, by whole numbers)."""
    from score_analysis import Scores

    blocks = [tuple(x) for x in item["longdouble"]]
    ld = np.longdouble
    for spacing_name, vals in (("sub-double-ulp", [ld(1) + ld(k) * np.finfo(ld).eps * 4 for k in range(len(blocks))]),
                               ("integers", [ld(k) for k in range(len(blocks))])):
        pos_r, neg_r, pos_v, neg_v = [], [], [], []
        for k, (a, c) in enumerate(blocks):
            pos_r += [k] * a
            neg_r += [k] * c
            pos_v += [vals[k]] * a
            neg_v += [vals[k]] * c
        cross = any(a > 0 and c > 0 for a, c in blocks)
        for cfg in ot.CFGS:
            for ep, en in ((0, 0), (1, 2)):
                case = {"blocks": item["longdouble"], "dtype": "longdouble", "spacing": spacing_name, "cfg": cfg, "easy": [ep, en]}
                ok, s = guarded(ctx, "construct", case, Scores, np.array(pos_v[::-1], dtype=ld), np.array(neg_v[::-1], dtype=ld), nb_easy_pos=ep,
                                nb_easy_neg=en, score_class=cfg[0], equal_class=cfg[1])
                if not ok:
                    continue
                ctx.state()
                ok, got = guarded(ctx, "auc-full", case, lambda: float(s.auc()))
                ctx.tick()
                ctx.nontrivial()
                want = float(refs.ref_mann_whitney(pos_r, neg_r, cfg[0], ep, en))
                if ok and not abs(got - want) <= 1e-9:
                    ctx.fail("full-auc-equals-mann-whitney", case, observed=got, expected=want)
                if not cross:
                    for lo, hi in ((F(0), F(1, 2)), (F(1, 4), F(3, 4)), (F(1, 2), F(1))):
                        ok, a = guarded(ctx, "auc-partial", dict(case, lower=str(lo), upper=str(hi)), lambda: float(s.auc(float(lo), float(hi))))
                        ctx.tick()
                        ref = float(refs.ref_step_area(pos_r, neg_r, cfg[0], ep, en, lo, hi))
                        if ok and not abs(a - ref) <= 1e-9:
                            ctx.fail("partial-auc-equals-step-area", dict(case, lower=str(lo), upper=str(hi)), observed=a, expected=ref)
    ctx.sample({"longdouble": item["longdouble"]})
    return None


def _run_ladder(item, ctx, seed):
    """Full AUC (with ties) and partial AUC (classes on disjoint values) on much larger deterministic datasets."""
    from score_analysis import Scores

    n = item["ladder"]
    for tie_free in (False, True):
        pos, neg = ot.ladder_dataset(n, tie_free, seed)
        spos, sneg = sorted(pos), sorted(neg)
        for cfg in ot.CFGS:
            for ep, en in ((0, 0), (3, 5)):
                case = {"ladder_n": n, "tie_free": tie_free, "cfg": cfg, "easy": [ep, en], "n_pos": len(pos), "n_neg": len(neg)}
                ctx.state()
                ok, s = guarded(ctx, "construct", case, Scores, pos, neg, nb_easy_pos=ep, nb_easy_neg=en, score_class=cfg[0],
                                equal_class=cfg[1])
                if not ok:
                    continue
                want = refs.ref_mann_whitney_sorted(spos, sneg, cfg[0], ep, en)
                ok, got = guarded(ctx, "auc-full", case, lambda: float(s.auc()))
                ctx.tick()
                ctx.nontrivial()
                if ok and not abs(got - float(want)) <= 1e-9:
                    ctx.fail("full-auc-equals-mann-whitney", case, observed=got, expected=float(want))
                if tie_free and n <= 1100:
                    for lo, hi in ((F(0), F(1, 2)), (F(1, 4), F(3, 4)), (F(1, 10), F(1, 5)), (F(3, 4), F(1))):
                        ref = refs.ref_step_area(pos, neg, cfg[0], ep, en, lo, hi)
                        ok, a = guarded(ctx, "auc-partial", dict(case, lower=str(lo), upper=str(hi)), lambda: float(s.auc(float(lo), float(hi))))
                        ctx.tick()
                        if ok and not abs(a - float(ref)) <= 1e-9:
                            ctx.fail("partial-auc-equals-step-area", dict(case, lower=str(lo), upper=str(hi)), observed=a, expected=float(ref))
    ctx.sample({"ladder_n": n})
    return None

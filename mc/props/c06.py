"""C06 - EER is a crossing point: FPR and FNR at its threshold agree with the EER."""

from __future__ import annotations

import math

import numpy as np

from mc import ordertypes as ot
from mc.harness import guarded

ID = "C06"
TITLE = "EER is a crossing point: FPR and FNR at its threshold agree with the EER"
ENGINE = "order-type-explorer"
RULE = (
    "state = (order type, concretisation, cfg, easy counts); transition = one eer() call composed with the "
    "object's own fpr/fnr at the returned threshold (plus eer() of the affine / negated image); crossing clauses "
    "on every tie-free interleaving, the zero-EER clause on every order type incl. ties; non-trivial = classes "
    "neither perfectly separated nor perfectly inverted (a genuine interior crossing); distinct by construction"
)
ASSUMPTIONS = [
    "two-density data sets (one class packed into a window of 1e-3 .. 1e-10 between sparse scores of the other) are judged to 1.001 samples: e is interpolated and exceeds the neighbouring step by the interpolation fraction",
    "one sample = 1/(all samples of the class, easy included); slack 1e-9 for the bisection (xtol 1e-10)",
    "EER threshold equivariance to 1e-6 of the score range (bisection result)",
    "affine maps a in {1/2,2,3}, b in {-3,1/4,100}",
]
AFFINE = [(0.5, -3.0), (2.0, 0.25), (3.0, 100.0)]


def bounds(tier):
    if tier == "quick":
        return {"tie_free_max": [4, 4], "all_types_max": [3, 3],
                "easy": [[0, 0], [1, 0], [0, 1], [2, 3], [3, 3], [5, 0], [0, 5]], "grids": ["irregular", "dyadic", "uint", "int8", "symmetric"]}
    return {"tie_free_max": [6, 6], "all_types_max": [4, 4],
            "easy": [[0, 0], [1, 0], [0, 1], [2, 3], [3, 3], [5, 0], [0, 5], [1, 7], [7, 2]],
            "grids": ["irregular", "dyadic", "int", "uint", "int8", "int16", "symmetric"]}


def work(tier, seed):
    b = bounds(tier)
    items, seen = [], set()
    P, Q = b["tie_free_max"]
    for bl in ot.order_types(P, Q, 1, 1, tie_free=True):
        seen.add(bl)
        for g in b["grids"]:
            items.append({"blocks": [list(x) for x in bl], "grid": g, "tie_free": True})
    for n in (ot.LADDER_QUICK[:5] if tier == "quick" else ot.LADDER_THOROUGH[:-2]):
        items.append({"ladder": n})
    for n in ((3000,) if tier == "quick" else (500, 3000, 20000)):
        items.append({"inverted": n})
    # two densities: one class packed into a narrow interval between sparse scores of the other (spacing 1e-9 .. 1e-14
    # of the magnitude, still thousands of ulps): an error of 1e-10 in e moves the threshold across many packed scores
    for width in (1e-3, 1e-6, 1e-8, 1e-10):
        for dense in ("pos", "neg"):
            items.append({"two_density": width, "dense": dense, "n": 1001})
    for width, n_ in ((1e-7, 3000), (1e-9, 400)):
        for dense in ("pos", "neg"):
            items.append({"two_density": width, "dense": dense, "n": n_, "irregular": True})
    P, Q = b["all_types_max"]
    for bl in ot.order_types(P, Q, 1, 1):
        if bl in seen:
            continue
        for g in b["grids"][:1]:
            items.append({"blocks": [list(x) for x in bl], "grid": g, "tie_free": False})
    return items


def _snip(pos, neg, cfg, ep, en):
    return ("from score_analysis import Scores\n"
            f"s = Scores({pos!r}, {neg!r}, nb_easy_pos={ep}, nb_easy_neg={en}, score_class={cfg[0]!r}, "
            f"equal_class={cfg[1]!r})\nt, e = s.eer()\nprint(t, e, s.fpr(t), s.fnr(t))\n")


def run(item, ctx, tier, seed):
    from score_analysis import Scores

    b = bounds(tier)
    if "inverted" in item:
        # every hard positive on the wrong side of every hard negative, hard fractions of the two classes nearly
        # (but not exactly) equal: the edge-of-hard-samples branch of the EER search
        n = item["inverted"]
        for rel in (5e-4, -5e-4, 2e-5, 0.0, 0.3):
            hp, hn = n, n + 15
            all_p = 50 * n
            all_n = int(round(hn / (hp / all_p * (1 + rel))))
            for cfg in ot.CFGS:
                lowv = [0.5 * i for i in range(hp)]
                highv = [0.5 * i + 0.5 * hp + 7 for i in range(hn)]
                pos, neg = (lowv, highv) if cfg[0] == "pos" else (highv, lowv)
                if len(pos) != hp:
                    pos, neg = pos[:hp] if len(pos) > hp else pos, neg
                ep, en = all_p - len(pos), all_n - len(neg)
                if min(ep, en) < 0:
                    continue
                case = {"inverted_n": n, "relative_difference_of_hard_fractions": rel, "cfg": cfg, "easy": [ep, en],
                        "n_pos": len(pos), "n_neg": len(neg)}
                ctx.state()
                ok, s = guarded(ctx, "construct", case, Scores, pos, neg, nb_easy_pos=ep, nb_easy_neg=en, score_class=cfg[0], equal_class=cfg[1])
                if not ok:
                    continue
                ok, res = guarded(ctx, "eer", case, s.eer)
                ctx.tick()
                ctx.nontrivial()
                if not ok:
                    continue
                t, e = float(res[0]), float(res[1])
                fpr, fnr = float(s.fpr(t)), float(s.fnr(t))
                NP, NN = len(pos) + ep, len(neg) + en
                if not (abs(fpr - e) <= 1.0 / NN + 1e-9 and abs(fnr - e) <= 1.0 / NP + 1e-9 and e <= min(len(pos) / NP, len(neg) / NN) + 1e-12):
                    ctx.fail("crossing-point-on-large-dataset", case, observed={"t": t, "eer": e, "fpr": fpr, "fnr": fnr,
                                                                               "fpr_off_by_samples": abs(fpr - e) * NN, "fnr_off_by_samples": abs(fnr - e) * NP},
                             expected="within one sample, capped by the hard fractions")
        ctx.sample({"inverted_n": n})
        return None
    if "two_density" in item:
        w, n = item["two_density"], item["n"]
        packed = (2.0 + w * np.arange(n) / (n - 1)).tolist()
        if item.get("irregular"):  # irregular spacing inside the window (a fixed low-discrepancy sequence)
            packed = sorted(set((2.0 + w * ((np.arange(n) * 0.6180339887498949) % 1.0)).tolist()))
        for sparse in ([0.0, 1.0, 3.0, 4.0], [1.0, 2.0 + w / 3, 2.0 + 2 * w / 3 + w / (7 * n), 5.0, 6.0]):
            sparse = [v for v in sparse if v not in set(packed)]
            pos, neg = (packed, sparse) if item["dense"] == "pos" else (sparse, packed)
            for cfg in ot.CFGS:
                for ep, en in ((0, 0), (2, 1)):
                    case = {"two_density_width": w, "dense_class": item["dense"], "n_dense": n, "sparse_scores": sparse, "cfg": cfg, "easy": [ep, en]}
                    ctx.state()
                    ok, s = guarded(ctx, "construct", case, Scores, pos, neg, nb_easy_pos=ep, nb_easy_neg=en, score_class=cfg[0], equal_class=cfg[1])
                    if not ok:
                        continue
                    ok, res = guarded(ctx, "eer", case, s.eer)
                    ctx.tick()
                    ctx.nontrivial()
                    if not ok:
                        continue
                    t, e = float(res[0]), float(res[1])
                    fpr, fnr = float(s.fpr(t)), float(s.fnr(t))
                    NP, NN = len(pos) + ep, len(neg) + en
                    ctx.outcome((w, item["dense"], cfg, ep, en, round(e, 9)))
                    # e is an interpolated rate: inside a packed class it exceeds the neighbouring step of the other rate by
                    # the interpolation fraction (about 1e-5 samples on these data, on the unchanged tree as well), so "one
                    # sample" is read here as 1.001 samples
                    if not (0 <= e <= 1 and abs(fpr - e) <= 1.001 / NN + 1e-9 and abs(fnr - e) <= 1.001 / NP + 1e-9
                            and e <= min(len(pos) / NP, len(neg) / NN) + 1e-12):
                        ctx.fail("crossing-point-on-two-density-data", case, observed={"t": t, "eer": e, "fpr": fpr, "fnr": fnr,
                                 "fnr_off_by_samples": abs(fnr - e) * NP, "fpr_off_by_samples": abs(fpr - e) * NN},
                                 expected="within one sample, capped by the hard fractions")
        ctx.sample({"two_density_width": w, "dense": item["dense"], "n": n})
        return None
    if "ladder" in item:
        n = item["ladder"]
        pos, neg = ot.ladder_dataset(n, True, seed)
        for cfg in ot.CFGS:
            for ep, en in ((0, 0), (3, 5), (0, n)):
                case = {"ladder_n": n, "cfg": cfg, "easy": [ep, en], "n_pos": len(pos), "n_neg": len(neg)}
                ctx.state()
                ok, s = guarded(ctx, "construct", case, Scores, pos, neg, nb_easy_pos=ep, nb_easy_neg=en, score_class=cfg[0],
                                equal_class=cfg[1])
                if not ok:
                    continue
                ok, res = guarded(ctx, "eer", case, s.eer)
                ctx.tick()
                ctx.nontrivial()
                if not ok:
                    continue
                t, e = float(res[0]), float(res[1])
                fpr, fnr = float(s.fpr(t)), float(s.fnr(t))
                NP, NN = len(pos) + ep, len(neg) + en
                if not (0 <= e <= 1 and abs(fpr - e) <= 1.0 / NN + 1e-9 and abs(fnr - e) <= 1.0 / NP + 1e-9
                        and e <= min(len(pos) / NP, len(neg) / NN) + 1e-12):
                    ctx.fail("crossing-point-on-large-dataset", case, observed={"t": t, "eer": e, "fpr": fpr, "fnr": fnr},
                             expected="within one sample, capped by the hard fractions")
        ctx.sample({"ladder_n": n})
        return None
    blocks = [tuple(x) for x in item["blocks"]]
    if item["grid"] in ("int8", "int16"):
        # narrow signed integers of both signs, gaps wider than the positive range of the dtype
        wide = [-100, -90, -75, -20, 30, 60, 100, 110, 120, 125] if item["grid"] == "int8" else \
               [-30000, -20000, -7, 5, 9000, 20000, 30000, 32000, 32500, 32700]
        vals = wide[: len(blocks)] if len(blocks) <= len(wide) else list(range(len(blocks)))
        if len(blocks) <= 3:
            vals = [wide[0], wide[-2], wide[-1]][: len(blocks)] if len(blocks) > 1 else [wide[0]]
        pos, neg = [], []
        for v, (a, c) in zip(vals, blocks):
            pos += [v] * a
            neg += [v] * c
    else:
        pos, neg, vals = ot.concretise(blocks, item["grid"], seed)
    tie_free = item["tie_free"]
    rng_ = max(max(vals) - min(vals), 1.0)
    for cfg in ot.CFGS:
        sc, ec = cfg
        sep = (min(pos) > max(neg)) if sc == "pos" else (max(pos) < min(neg))
        inv = (max(pos) < min(neg)) if sc == "pos" else (min(pos) > max(neg))
        for ep, en in [tuple(e) for e in b["easy"]]:
            case = {"blocks": item["blocks"], "grid": item["grid"], "pos": pos, "neg": neg, "cfg": cfg,
                    "easy": [ep, en]}
            if item["grid"] in ("uint", "int8", "int16"):

                dt_ = {"uint": np.uint8, "int8": np.int8, "int16": np.int16}[item["grid"]]
                pin, nin = np.array(pos[::-1], dtype=dt_), np.array(neg[::-1], dtype=dt_)
            else:
                pin, nin = pos[::-1], neg[::-1]
            ok, s = guarded(ctx, "construct", case, Scores, pin, nin, nb_easy_pos=ep, nb_easy_neg=en,
                            score_class=sc, equal_class=ec)
            if not ok:
                continue
            ctx.state()
            if item["grid"] == "irregular" and (ep, en) in ((0, 0), (2, 3)):
                # an object that computed an EER for other scores and then received these scores through its
                # public attributes must answer for the new scores
                ok3, s3 = guarded(ctx, "construct", case, Scores, [v * 0.5 + 20.0 for v in pos], [v * 0.5 + 21.0 for v in neg],
                                  nb_easy_pos=ep + 1, nb_easy_neg=en, score_class=sc, equal_class=ec)
                if ok3:
                    guarded(ctx, "warm-up", case, s3.eer)
    
                    s3.pos, s3.neg = np.sort(np.asarray(pos, dtype=float)), np.sort(np.asarray(neg, dtype=float))
                    s3.nb_easy_pos, s3.nb_easy_neg = ep, en
                    okm, resm = guarded(ctx, "eer-after-attribute-update", case, s3.eer)
                    okf, resf = guarded(ctx, "eer", case, s.eer)
                    ctx.tick()
                    if okm and okf and not (abs(resm[1] - resf[1]) <= 1e-9 and abs(resm[0] - resf[0]) <= 1e-6 * rng_):
                        ctx.fail("eer-follows-the-current-scores", dict(case, history="eer() on other scores, then pos/neg/easy assigned"),
                                 observed=[float(resm[0]), float(resm[1])], expected=[float(resf[0]), float(resf[1])])
            ok, res = guarded(ctx, "eer", case, s.eer)
            ctx.tick()
            if not (sep or inv):
                ctx.nontrivial()
            if not ok:
                continue
            t, e = float(res[0]), float(res[1])
            fpr, fnr = float(s.fpr(t)), float(s.fnr(t))
            ctx.outcome((cfg, ep, en, round(e, 7), round(fpr, 7), round(fnr, 7)))
            snip = _snip(pos, neg, cfg, ep, en)
            if e == 0.0 and not (fpr == 0.0 and fnr == 0.0):
                ctx.fail("zero-eer-has-no-errors", case, observed={"t": t, "eer": e, "fpr": fpr, "fnr": fnr},
                         expected="fpr == fnr == 0", snippet=snip)
            if not tie_free:
                continue
            NP, NN = len(pos) + ep, len(neg) + en
            if not (0.0 <= e <= 1.0):
                ctx.fail("eer-in-unit-interval", case, observed=e, expected="[0,1]", snippet=snip)
            if not abs(fpr - e) <= 1.0 / NN + 1e-9:
                ctx.fail("fpr-within-one-sample-of-eer", case, observed={"t": t, "eer": e, "fpr": fpr},
                         expected={"tol": 1.0 / NN}, snippet=snip)
            if not abs(fnr - e) <= 1.0 / NP + 1e-9:
                ctx.fail("fnr-within-one-sample-of-eer", case, observed={"t": t, "eer": e, "fnr": fnr},
                         expected={"tol": 1.0 / NP}, snippet=snip)
            cap = min(len(pos) / NP, len(neg) / NN)
            if not e <= cap + 1e-12:
                ctx.fail("eer-capped-by-hard-fractions", case, observed=e, expected=cap, snippet=snip)
            # affine images
            if item["grid"] not in ("int", "uint", "int8", "int16"):
                for a_, b_ in AFFINE:
                    apos, aneg = [a_ * x + b_ for x in pos], [a_ * x + b_ for x in neg]
                    ok, sa = guarded(ctx, "affine-construct", dict(case, a=a_, b=b_), Scores, apos, aneg,
                                     nb_easy_pos=ep, nb_easy_neg=en, score_class=sc, equal_class=ec)
                    if not ok:
                        continue
                    ok, ra = guarded(ctx, "affine-eer", dict(case, a=a_, b=b_), sa.eer)
                    ctx.tick()
                    if ok:
                        ta, ea = float(ra[0]), float(ra[1])
                        if not abs(ea - e) <= 1e-9:
                            ctx.fail("affine-eer-value", dict(case, a=a_, b=b_), observed=ea, expected=e)
                        if not abs(ta - (a_ * t + b_)) <= 1e-6 * a_ * rng_ + 1e-9 * abs(b_):
                            ctx.fail("affine-eer-threshold", dict(case, a=a_, b=b_), observed=ta,
                                     expected=a_ * t + b_)
            # reversed direction
            flip = "neg" if sc == "pos" else "pos"
            ok, sn = guarded(ctx, "negate-construct", case, Scores, [-x for x in pos], [-x for x in neg],
                             nb_easy_pos=ep, nb_easy_neg=en, score_class=flip, equal_class=ec)
            if ok:
                ok, rn = guarded(ctx, "negate-eer", case, sn.eer)
                ctx.tick()
                if ok:
                    tn_, en_ = float(rn[0]), float(rn[1])
                    if not abs(en_ - e) <= 1e-9:
                        ctx.fail("reversal-eer-value", case, observed=en_, expected=e)
                    if not abs(tn_ + t) <= 1e-6 * rng_:
                        ctx.fail("reversal-eer-threshold", case, observed=tn_, expected=-t)
    if item["grid"] == "irregular" and tie_free and len(pos) + len(neg) <= 6:
        # bootstrap samples (incl. smoothed ones) and swap() are Scores objects: the crossing clauses apply to
        # every derived object that is itself tie-free
        from mc.derived import derived_objects

        for cfg in ot.CFGS[::3]:
            s0 = Scores(pos[::-1], neg[::-1], nb_easy_pos=1, nb_easy_neg=0, score_class=cfg[0], equal_class=cfg[1])
            for how, d in derived_objects(s0, seed):
                dp, dn = np.asarray(d.pos, dtype=float).tolist(), np.asarray(d.neg, dtype=float).tolist()
                if not dp or not dn or len(set(dp + dn)) != len(dp) + len(dn):
                    continue
                case = {"source_pos": pos, "source_neg": neg, "cfg": cfg, "derived": how, "pos": dp, "neg": dn}
                ctx.state()
                ok, res = guarded(ctx, "eer-derived", case, d.eer)
                ctx.tick()
                if not ok:
                    continue
                t, e = float(res[0]), float(res[1])
                fpr, fnr = float(d.fpr(t)), float(d.fnr(t))
                NP, NN = len(dp) + int(d.nb_easy_pos), len(dn) + int(d.nb_easy_neg)
                if not (abs(fpr - e) <= 1.0 / NN + 1e-9 and abs(fnr - e) <= 1.0 / NP + 1e-9):
                    ctx.fail("crossing-point-on-derived-object", case, observed={"t": t, "eer": e, "fpr": fpr, "fnr": fnr},
                             expected="within one sample")
    ctx.sample({"blocks": item["blocks"], "grid": item["grid"], "pos": pos, "neg": neg, "tie_free": tie_free})

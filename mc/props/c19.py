"""C19 - FraudScores is a faithful, validated genuine/fraud view of Scores."""

from __future__ import annotations

import itertools
import math
import warnings

import numpy as np

from mc.harness import HarnessError, guarded

ID = "C19"
TITLE = "FraudScores is a faithful, validated genuine/fraud view of Scores"
ENGINE = "order-type-explorer"
RULE = (
    "state = (genuine multiset, fraud multiset over the boundary value alphabet, score_class, easy counts, "
    "constructor form); transition = one FraudScores construction (raise / no raise) or one query compared "
    "bit-for-bit with the same query on Scores(pos=genuines, neg=frauds, translated score_class, "
    "equal_class='pos'); non-trivial = construction succeeds with both classes non-empty, or a value lies "
    "within one ulp of the [0,1] boundary; distinct by construction"
)
ASSUMPTIONS = [
    "value alphabet {-0.5, -5e-324, -1e-17, 0, 0.25, 0.5, 1, 1+ulp, 1.5} plus float32 variants: every boundary "
    "of the validity range from both sides",
    "multiset size <= 2 per class (quick) / 3 (thorough)",
]
ONE_UP = math.nextafter(1.0, 2.0)
VALUES = [-0.5, -5e-324, -1e-17, 0.0, 0.25, 0.5, 1.0, ONE_UP, 1.5]
QUERIES_T = [-1.0, 0.0, 5e-324, 0.125, 0.25, math.nextafter(0.25, 1), 0.5, 0.75, 1.0, ONE_UP, 2.0, math.inf, -math.inf]
TARGETS = [-0.1, 0.0, 0.25, 1.0 / 3.0, 0.5, 0.75, 1.0, 1.1]
SETTERS = ["tpr", "fnr", "tnr", "fpr", "topr", "tonr", "tar", "frr", "trr", "far", "acceptance_rate", "rejection_rate"]
RATES = ["tpr", "fnr", "tnr", "fpr", "topr", "tonr", "tar", "frr", "trr", "far", "acceptance_rate", "rejection_rate"]


def bounds(tier):
    return {"values": VALUES, "max_per_class": 2 if tier == "quick" else 3, "easy": [[0, 0], [1, 2]],
            "score_class": ["genuine", "fraud"]}


def work(tier, seed):
    b = bounds(tier)
    ms = []
    for n in range(0, b["max_per_class"] + 1):
        ms += [list(c) for c in itertools.combinations_with_replacement(range(len(VALUES)), n)]
    items = []
    for g in ms:
        items.append({"genuines": g})
    items.append({"labels": True})
    items.append({"label_kinds": True})
    items.append({"wide_dtypes": True})
    items.append({"nan_range": True})
    items.append({"no_rng": True})
    for n in (7, 8, 17, 64, 101):
        items.append({"ladder": n})
    return items


def _eq(a, b):
    a, b = np.asarray(a), np.asarray(b)
    return a.shape == b.shape and np.array_equal(a, b, equal_nan=True)


def _run_label_kinds(ctx):
    """from_labels splits by the genuine label for every kind of label array and every genuine_label value."""
    from score_analysis.applications.doc_fraud import FraudScores

    scores = [0.1, 0.6, 0.6, 0.9, 0.3, 0.0, 1.0]
    patterns = [[0, 0, 0, 0, 1, 1, 0], [1, 0, 1, 0, 1, 0, 1], [1, 1, 1, 1, 1, 1, 1], [0, 1, 1, 0, 0, 0, 1]]
    kinds = {
        "bool": (lambda p: np.array([bool(x) for x in p]), [True, False, 1, 0, 2, "x"]),
        "int": (lambda p: np.array(p), [1, 0, True, False, 2]),
        "uint8": (lambda p: np.array(p, dtype=np.uint8), [1, 0, 255]),
        "float": (lambda p: np.array(p, dtype=float), [1.0, 0.0, 1, 0.5]),
        "str": (lambda p: np.array(["gen" if x else "fraud" for x in p]), ["gen", "fraud", "g", ""]),
        "list-of-bool": (lambda p: [bool(x) for x in p], [True, False]),
        "object": (lambda p: np.array([("a" if x else None) for x in p], dtype=object), ["a", "b"]),
    }
    for kname, (mk, glabels) in kinds.items():
        for pat in patterns:
            labels = mk(pat)
            for gl in glabels:
                for sc in ("genuine", "fraud"):
                    case = {"label_kind": kname, "labels": pat, "genuine_label": repr(gl), "scores": scores, "score_class": sc}
                    ctx.state()
                    ctx.nontrivial()
                    ll = labels.tolist() if isinstance(labels, np.ndarray) else labels
                    want_g = sorted(s_ for l_, s_ in zip(ll, scores) if l_ == gl)
                    want_f = sorted(s_ for l_, s_ in zip(ll, scores) if not (l_ == gl))
                    ok, fs = guarded(ctx, "from_labels", case, lambda: FraudScores.from_labels(labels, np.array(scores), genuine_label=gl,
                                                                                                score_class=sc))
                    ctx.tick()
                    if not ok:
                        continue
                    got_g, got_f = np.asarray(fs.genuines, dtype=float).tolist(), np.asarray(fs.frauds, dtype=float).tolist()
                    ctx.outcome((kname, repr(gl), tuple(got_g)))
                    if got_g != want_g or got_f != want_f:
                        ctx.fail("from-labels-splits-by-genuine-label", case, observed=[got_g, got_f], expected=[want_g, want_f])
    ctx.sample({"kind": "label_kinds", "kinds": list(kinds), "patterns": patterns})
    return None


def _run_ladder(item, ctx, seed):
    """Classes of 7 .. 101 distinct scores in [0,1]: the view against the Scores object for deterministic queries and for
    bootstrap queries under deterministic (callable) samplers and under the seeded built-in ones."""
    from score_analysis import BootstrapConfig, Scores
    from score_analysis.applications.doc_fraud import FraudScores

    n = item["ladder"]
    gen = [((i * 37 + 11) % 1009) / 1009.0 for i in range(n)]
    fra = [((i * 53 + 5) % 997) / 1000.0 for i in range(n + 3)]
    T = np.array(sorted(set(gen[:4] + fra[:4] + [0.0, 0.5, 1.0, min(gen), min(fra), max(gen), sorted(gen)[1], sorted(fra)[1]])))
    targets = np.array([0.0, 1.0 / n, 0.25, 0.5, 1.0])
    for sc in ("genuine", "fraud"):
        fs = FraudScores(genuines=np.array(gen), frauds=np.array(fra), nb_easy_genuines=2, score_class=sc)
        ref = Scores(pos=np.array(gen), neg=np.array(fra), nb_easy_pos=2, score_class="pos" if sc == "genuine" else "neg", equal_class="pos")
        case = {"kind": "ladder", "n_genuines": n, "n_frauds": n + 3, "score_class": sc}
        ctx.state()
        ctx.nontrivial()
        if not (_eq(fs.pos, ref.pos) and _eq(fs.neg, ref.neg) and _eq(fs.genuines, ref.pos) and _eq(fs.frauds, ref.neg)):
            ctx.fail("genuines-frauds-alias-pos-neg", case, observed=[np.asarray(fs.pos)[:3], np.asarray(fs.neg)[:3]], expected=[np.asarray(ref.pos)[:3], np.asarray(ref.neg)[:3]])
        for q, f in (("cm", lambda o: o.cm(T).matrix), ("tpr", lambda o: o.tpr(T)), ("fpr", lambda o: o.fpr(T)), ("eer", lambda o: np.array(o.eer())),
                     ("auc", lambda o: o.auc()), ("threshold_at_fnr", lambda o: o.threshold_at_fnr(targets)), ("threshold_at_fpr", lambda o: o.threshold_at_fpr(targets)),
                     ("threshold_at_topr", lambda o: o.threshold_at_topr(targets))):
            ok, (a, b_) = guarded(ctx, q, dict(case, query=q), lambda: (np.asarray(f(fs), dtype=float), np.asarray(f(ref), dtype=float)))
            ctx.tick()
            if ok and not np.array_equal(a, b_, equal_nan=True):
                ctx.fail("query-equals-scores-object", dict(case, query=q), observed=a, expected=b_)
        # bootstrap queries: deterministic samplers (the sampler's object is used as it is), then seeded built-in ones
        def swapper(o):
            return Scores(np.asarray(o.neg)[::2], np.asarray(o.pos)[::3], score_class="pos", equal_class="neg")

        def thinner(o):
            return Scores(np.asarray(o.pos)[1::2], np.asarray(o.neg)[::2], nb_easy_neg=1)

        for sname, smp in (("swapping", swapper), ("thinning", thinner), ("identity", lambda o: o)):
            cfgobj = BootstrapConfig(nb_samples=3, sampling_method=smp, bootstrap_method="quantile")
            for q, f in (("bootstrap_metric", lambda o: o.bootstrap_metric("fnr", cfgobj, threshold=T)),
                         ("bootstrap_ci", lambda o: o.bootstrap_ci("tpr", 0.2, cfgobj, threshold=T[::2])),
                         ("bootstrap_sample", lambda o: np.concatenate([o.bootstrap_sample(cfgobj).pos, o.bootstrap_sample(cfgobj).neg]))):
                ok, (a, b_) = guarded(ctx, q, dict(case, query=q, sampler=sname), lambda: (np.asarray(f(fs), dtype=float), np.asarray(f(ref), dtype=float)))
                ctx.tick()
                if ok and not np.array_equal(a, b_, equal_nan=True):
                    ctx.fail("query-equals-scores-object", dict(case, query=q, sampler=sname), observed=a, expected=b_)
        for method, strat in (("replacement", None), ("single_pass", "by_label"), ("dynamic", None)):
            cfgobj = BootstrapConfig(nb_samples=4, sampling_method=method, stratified_sampling=strat, bootstrap_method="bc")
            out = []
            for o in (fs, ref):
                st = np.random.get_state()
                np.random.seed(seed + 3)
                try:
                    ok, v = guarded(ctx, "bootstrap_ci", dict(case, method=method), lambda: np.asarray(o.bootstrap_ci("fnr", 0.2, cfgobj, threshold=T[::3]), dtype=float))
                finally:
                    np.random.set_state(st)
                out.append(v if ok else None)
            ctx.tick()
            if out[0] is not None and out[1] is not None and not np.array_equal(out[0], out[1], equal_nan=True):
                ctx.fail("query-equals-scores-object", dict(case, query="bootstrap_ci", method=method, np_random_seed=seed + 3), observed=out[0], expected=out[1])
    ctx.outcome(("ladder", n))
    ctx.sample({"kind": "ladder", "n": n})
    return None


def _run_nan_range(ctx):
    """Range validation when a class also holds NaN (which sorts last and compares False with everything) or +-inf:
    ValueError exactly when some score is < 0 or > 1."""
    from score_analysis.applications.doc_fraud import FraudScores

    al = [0.5, 0.0, 1.0, 1.5, -0.5, math.nan, math.inf, -math.inf, math.nextafter(1.0, 2.0)]
    combos = [list(c) for n in (1, 2, 3) for c in itertools.product(range(len(al)), repeat=n) if any(math.isnan(al[i]) or math.isinf(al[i]) for i in c)]
    for gi in combos:
        g = [al[i] for i in gi]
        for f in ([0.25], [0.25, math.nan], []):
            for which in ("genuines", "frauds"):
                gen, fra = (g, f) if which == "genuines" else (f, g)
                inv = any(v < 0 or v > 1 for v in gen + fra)
                case = {"genuines": gen, "frauds": fra, "form": "nan/inf menu"}
                ctx.state()
                ctx.tick()
                ctx.nontrivial()
                try:
                    FraudScores(genuines=np.array(gen, dtype=float), frauds=np.array(fra, dtype=float))
                    raised = None
                except ValueError as e:
                    raised = e
                except Exception as e:  # noqa
                    ctx.fail("unexpected-exception:construct", case, observed=repr(e), expected="ValueError or object")
                    continue
                ctx.outcome(("nan", inv, raised is not None))
                if inv and raised is None:
                    ctx.fail("valueerror-iff-out-of-range", case, observed="constructed", expected="ValueError")
                elif not inv and raised is not None:
                    ctx.fail("valueerror-iff-out-of-range", case, observed=repr(raised), expected="constructed")
    ctx.sample({"kind": "nan_range", "alphabet": [str(v) for v in al], "combinations": len(combos)})
    return None


def _run_no_rng(ctx):
    """
    Construction and every deterministic query leave the global random stream alone at every size (a view that drew
    random numbers would make a seeded script give other bootstrap results than the equivalent Scores object):
    run under the RNG oracle, which records every request, with classes of 5 .. 1,200,000 scores.
    """
    from mc import rngtree
    from score_analysis import Scores
    from score_analysis.applications.doc_fraud import FraudScores

    for ng, nf in ((5, 7), (300, 1_000_001), (1_200_000, 250), (150, 130)):
        gen = (np.arange(ng) % 1000) / 1000.0
        fra = ((np.arange(nf) * 7) % 997) / 1000.0
        for cls, kw in ((FraudScores, dict(genuines=gen, frauds=fra)), (Scores, dict(pos=gen, neg=fra))):
            case = {"kind": "no_rng", "class": cls.__name__, "sizes": [ng, nf]}
            orc = rngtree.Oracle((), 0)  # no request is expected: the first one ends the run
            state_before = np.random.get_state()[1][:8].tolist()
            try:
                with rngtree.owned(orc):
                    o = cls(**kw)
                    o.cm(np.array([0.2, 0.5])), o.threshold_at_fnr(0.1), o.threshold_at_topr(0.5), o.eer(), o.auc(), o.swap()
                    if cls is FraudScores:
                        o.genuines, o.frauds
            except (rngtree.UnownedRNG, HarnessError) as e:
                ctx.fail("deterministic-queries-do-not-draw-random-numbers", case, observed=str(e), expected="no request")
                continue
            except Exception as e:  # noqa
                ctx.fail("unexpected-exception:no-rng", case, observed=repr(e), expected="no exception")
                continue
            ctx.state()
            ctx.tick()
            ctx.nontrivial()
            if len(orc.trace) or np.random.get_state()[1][:8].tolist() != state_before:
                ctx.fail("deterministic-queries-do-not-draw-random-numbers", case, observed=[str(t)[:80] for t in orc.trace[:3]], expected="no request")
    ctx.sample({"kind": "no_rng", "sizes": [[5, 7], [300, 1000001], [1200000, 250], [150, 130]]})
    return None


def _run_wide_dtypes(ctx):
    """Scores in dtypes wider than float64 (long double, exact rationals): out of [0,1] by less than a float64 ulp."""
    from fractions import Fraction as Fr

    from score_analysis.applications.doc_fraud import FraudScores

    ld = np.longdouble
    menus = []
    if np.finfo(ld).eps < np.finfo(float).eps:
        one_up, tiny_neg = np.nextafter(ld(1), ld(2)), -np.finfo(ld).tiny
        menus.append(("longdouble", ld, [ld(0), ld(0.25), ld(1), one_up, tiny_neg, ld(1) - np.finfo(ld).eps, ld(1.5)],
                      lambda v: bool(v < 0 or v > 1)))
    menus.append(("Fraction", object, [Fr(0), Fr(1, 3), Fr(1), 1 + Fr(1, 10**30), -Fr(1, 10**40), 1 - Fr(1, 10**30), Fr(3, 2)],
                  lambda v: bool(v < 0 or v > 1)))
    for dname, dt, vals, bad in menus:
        for i, gv in enumerate(vals):
            for j, fv in enumerate(vals):
                for sc in ("genuine", "fraud"):
                    g, f = [vals[1], gv], [fv]
                    inv = any(bad(v) for v in g + f)
                    case = {"dtype": dname, "genuines": [str(v) for v in g], "frauds": [str(v) for v in f], "score_class": sc}
                    ctx.state()
                    ctx.tick()
                    ctx.nontrivial()
                    try:
                        FraudScores(genuines=np.array(g, dtype=dt), frauds=np.array(f, dtype=dt), score_class=sc)
                        raised = None
                    except ValueError as e:
                        raised = e
                    except Exception as e:  # noqa
                        ctx.fail("unexpected-exception:construct", case, observed=repr(e), expected="ValueError or object")
                        continue
                    ctx.outcome((dname, inv, raised is not None))
                    if inv and raised is None:
                        ctx.fail("valueerror-iff-out-of-range", case, observed="constructed", expected="ValueError")
                    elif not inv and raised is not None:
                        ctx.fail("valueerror-iff-out-of-range", case, observed=repr(raised), expected="constructed")
    ctx.sample({"kind": "wide_dtypes", "dtypes": [m[0] for m in menus]})
    return None


def run(item, ctx, tier, seed):
    from score_analysis import Scores
    from score_analysis.applications.doc_fraud import (DocLabel, FraudScores, binary_to_doc_label,
                                                         doc_to_binary_label)
    from score_analysis.scores import BinaryLabel

    warnings.simplefilter("ignore")
    b = bounds(tier)
    if item.get("label_kinds"):
        return _run_label_kinds(ctx)
    if item.get("wide_dtypes"):
        return _run_wide_dtypes(ctx)
    if item.get("nan_range"):
        return _run_nan_range(ctx)
    if item.get("no_rng"):
        return _run_no_rng(ctx)
    if item.get("ladder"):
        return _run_ladder(item, ctx, seed)
    if item.get("labels"):
        # label translations are mutually inverse on both enums (and on their string values)
        ctx.state()
        for d in list(DocLabel) + ["genuine", "fraud"]:
            ok, back = guarded(ctx, "labels", {"doc": str(d)}, lambda: binary_to_doc_label(doc_to_binary_label(d)))
            ctx.tick()
            if ok and back != DocLabel(d):
                ctx.fail("label-translations-inverse", {"doc": str(d)}, observed=str(back), expected=str(DocLabel(d)))
        for bl in list(BinaryLabel) + ["pos", "neg"]:
            ok, back = guarded(ctx, "labels", {"binary": str(bl)}, lambda: doc_to_binary_label(binary_to_doc_label(bl)))
            ctx.tick()
            if ok and not (back == BinaryLabel(bl)):
                ctx.fail("label-translations-inverse", {"binary": str(bl)}, observed=str(back), expected=str(bl))
        if not (doc_to_binary_label("genuine") == BinaryLabel.pos and doc_to_binary_label("fraud") == BinaryLabel.neg):
            ctx.fail("genuine-is-pos", {}, observed=str(doc_to_binary_label("genuine")), expected="pos")
        ctx.nontrivial()
        return None
    ms = []
    for n in range(0, b["max_per_class"] + 1):
        ms += [list(c) for c in itertools.combinations_with_replacement(range(len(VALUES)), n)]
    gen = [VALUES[i] for i in item["genuines"]]
    for fr_idx in ms:
        fra = [VALUES[i] for i in fr_idx]
        invalid = any(v < 0 or v > 1 for v in gen + fra)
        near = any(v in (-5e-324, -1e-17, ONE_UP, 0.0, 1.0) for v in gen + fra)
        for sc in b["score_class"]:
            for ep, en in [tuple(e) for e in b["easy"]]:
                for form in ("kw", "from_labels", "float32"):
                    if form == "float32" and (ep, en) != (0, 0):
                        continue
                    g_in, f_in = gen[::-1], fra[::-1]
                    if form == "float32":
                        g_in, f_in = np.array(g_in, dtype=np.float32), np.array(f_in, dtype=np.float32)
                        inv = bool(np.any(g_in < 0) or np.any(g_in > 1) or np.any(f_in < 0) or np.any(f_in > 1))
                    else:
                        inv = invalid
                    case = {"genuines": gen, "frauds": fra, "score_class": sc, "easy": [ep, en], "form": form}
                    ctx.state()
                    ctx.tick()
                    if near or (not inv and gen and fra):
                        ctx.nontrivial()
                    try:
                        if form == "from_labels":
                            labels = ["g"] * len(gen) + ["f"] * len(fra)
                            order = list(range(len(labels)))[::-1]
                            fs = FraudScores.from_labels([labels[i] for i in order], [(gen + fra)[i] for i in order],
                                                         genuine_label="g", nb_easy_genuines=ep, nb_easy_frauds=en,
                                                         score_class=sc)
                        else:
                            fs = FraudScores(genuines=g_in, frauds=f_in, nb_easy_genuines=ep, nb_easy_frauds=en,
                                             score_class=sc)
                        raised = None
                    except ValueError as e:
                        raised, fs = e, None
                    except Exception as e:  # noqa
                        ctx.fail("unexpected-exception:construct", case, observed=repr(e), expected="ValueError or object")
                        continue
                    snip = ("from score_analysis.applications.doc_fraud import FraudScores\n"
                            f"FraudScores(genuines={gen!r}, frauds={fra!r}, score_class={sc!r})\n")
                    ctx.outcome((inv, raised is not None))
                    if inv:
                        if raised is None:
                            ctx.fail("valueerror-iff-out-of-range", case, observed="constructed", expected="ValueError",
                                     snippet=snip)
                        continue
                    if raised is not None:
                        ctx.fail("valueerror-iff-out-of-range", case, observed=repr(raised), expected="constructed",
                                 snippet=snip)
                        continue
                    ref = Scores(pos=g_in, neg=f_in, nb_easy_pos=ep, nb_easy_neg=en,
                                 score_class="pos" if sc == "genuine" else "neg", equal_class="pos")
                    if not (_eq(fs.genuines, fs.pos) and _eq(fs.frauds, fs.neg) and _eq(fs.pos, ref.pos)
                            and _eq(fs.neg, ref.neg)):
                        ctx.fail("genuines-frauds-alias-pos-neg", case, observed=[fs.genuines, fs.frauds],
                                 expected=[ref.pos, ref.neg])
                    if not (fs.score_class == ref.score_class and fs.equal_class == ref.equal_class
                            and fs.nb_easy_pos == ep and fs.nb_easy_neg == en):
                        ctx.fail("flags-translated", case,
                                 observed=[str(fs.score_class), str(fs.equal_class), fs.nb_easy_pos, fs.nb_easy_neg],
                                 expected=[str(ref.score_class), "pos", ep, en])
                    T = np.array(QUERIES_T)
                    pairs = [("cm", lambda o: o.cm(T).matrix)]
                    for r in RATES:
                        pairs.append((r, lambda o, r=r: getattr(o, r)(T)))
                    pairs.append(("swap.cm", lambda o: o.swap().cm(T).matrix))
                    tg = np.array(TARGETS)
                    for st in SETTERS:
                        for method in ("linear", "lower", "higher"):
                            pairs.append((f"threshold_at_{st}[{method}]",
                                          lambda o, st=st, method=method: getattr(o, "threshold_at_" + st)(tg, method=method)))
                    pairs.append(("eq(Scores)", lambda o: bool(o == ref)))
                    pairs.append(("Scores.eq", lambda o: bool(ref == o)))
                    pairs.append(("ne(Scores)", lambda o: bool(o != Scores(pos=g_in, neg=[0.5] + list(f_in)))))
                    pairs.append(("eer", lambda o: np.array(o.eer())))
                    pairs.append(("auc", lambda o: o.auc()))
                    pairs.append(("auc.partial", lambda o: o.auc(0.25, 0.75)))
                    for name, fn in pairs:
                        try:
                            want = ("ok", fn(ref))
                        except Exception as e:  # same failure expected from the view
                            want = ("raise", type(e).__name__)
                        try:
                            got = ("ok", fn(fs))
                        except Exception as e:
                            got = ("raise", type(e).__name__)
                        ctx.tick()
                        if name in ("cm", "eer") and got[0] == "ok":
                            ctx.outcome((name, np.asarray(got[1]).tobytes()))
                        same = got[0] == want[0] and (_eq(got[1], want[1]) if got[0] == "ok" else got[1] == want[1])
                        if not same:
                            ctx.fail("query-identical-to-scores", dict(case, query=name), observed=got[1], expected=want[1],
                                     snippet=("from score_analysis import Scores\n"
                                              "from score_analysis.applications.doc_fraud import FraudScores\n"
                                              f"f = FraudScores(genuines={gen!r}, frauds={fra!r}, nb_easy_genuines={ep}, "
                                              f"nb_easy_frauds={en}, score_class={sc!r})\n"
                                              f"s = Scores({gen!r}, {fra!r}, nb_easy_pos={ep}, nb_easy_neg={en}, "
                                              f"score_class={'pos' if sc == 'genuine' else 'neg'!r}, equal_class='pos')\n"
                                              f"# query: {name}\n"))
    # the caller reuses its (already sorted) input arrays after construction: FraudScores must react exactly like
    # the equivalent Scores object built from the same arrays (both hold their own copies)
    valid = [v for v in gen if 0 <= v <= 1]
    if len(valid) >= 1:
        for sc in b["score_class"]:
            ga, fa = np.array(sorted(valid), dtype=float), np.array(sorted([0.25, 0.5, 0.75][: max(1, len(valid))]), dtype=float)
            try:
                fs = FraudScores(genuines=ga, frauds=fa, score_class=sc)
                ref = Scores(pos=ga, neg=fa, score_class="pos" if sc == "genuine" else "neg", equal_class="pos")
            except Exception as e:  # noqa
                ctx.fail("unexpected-exception:construct", {"genuines": valid, "score_class": sc}, observed=repr(e), expected="object")
                continue
            ga[...] = 1.0 - ga
            fa[...] = fa[::-1] * 0.5
            T = np.array(QUERIES_T)
            ctx.state()
            ctx.tick()
            if not (_eq(fs.cm(T).matrix, ref.cm(T).matrix) and _eq(fs.pos, ref.pos) and _eq(fs.neg, ref.neg)):
                ctx.fail("query-identical-to-scores", {"genuines": valid, "score_class": sc,
                                                       "history": "caller overwrote its sorted input arrays after construction"},
                         observed=[fs.pos, fs.neg], expected=[ref.pos, ref.neg])
    ctx.sample({"genuines": gen, "fraud_multisets": len(ms), "score_class": b["score_class"], "easy": b["easy"]})
    return None

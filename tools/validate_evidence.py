#!/opt/veriftools/pyvenv/bin/python
"""Validate every evidence file against the schema (development aid)."""
import glob, json, sys
import jsonschema
sch = json.load(open("/root/.vp/EVIDENCE.schema.json"))
bad = 0
for p in sorted(glob.glob("/verif/evidence/*.json")):
    try:
        jsonschema.validate(json.load(open(p)), sch)
        print("ok ", p)
    except Exception as e:
        bad += 1
        print("BAD", p, str(e)[:300])
sys.exit(1 if bad else 0)

"""C04 - binary metrics obey their defining algebra, NaN rule and normal-approximation CIs."""

from __future__ import annotations

import itertools
import math
from fractions import Fraction as F

import numpy as np

from mc import refs
from mc.harness import guarded

ID = "C04"
TITLE = "Binary metrics obey their defining algebra, NaN rule and normal-approx CIs"
ENGINE = "array-enumerator"
RULE = (
    "state = one 2x2 matrix over the entry alphabet (int64, and scaled float64) or one stacked array of them in a "
    "leading shape; transition = one metrics.<f>(array) / ConfusionMatrix(binary).<f>() call compared with the "
    "exact rational definition; non-trivial = at least one zero row or column total (a NaN locus) or all four "
    "cells non-zero and not symmetric (TP != TN or FN != FP) - counted per matrix; distinct by construction"
)
ASSUMPTIONS = [
    "entry alphabet {0,1,2,5} (quick) / {0,1,2,3,5,10} (thorough), float variants x0.5, x1e-3, x1e6",
    "alpha in {0.01,0.05,0.3,0.9}; normal quantile from statistics.NormalDist, tolerance 1e-9",
    "rates compared exactly where a single division is documented, 1e-12 where a complement 1-x is taken",
]

COUNTS = ["tp", "tn", "fp", "fn", "p", "n", "top", "ton", "pop"]
RATES = ["tpr", "fnr", "tnr", "fpr", "ppv", "npv", "fdr", "for_", "topr", "tonr", "accuracy", "error_rate"]
ALIASES = {"tar": "tpr", "frr": "fnr", "trr": "tnr", "far": "fpr", "acceptance_rate": "topr",
           "rejection_rate": "tonr"}
CIS = {"tpr_ci": ("tp", "p"), "tnr_ci": ("tn", "n"), "fpr_ci": ("fp", "n"), "fnr_ci": ("fn", "p")}
CI_ALIASES = {"tar_ci": "tpr_ci", "frr_ci": "fnr_ci", "trr_ci": "tnr_ci", "far_ci": "fpr_ci"}
COMPLEMENTS = [("tpr", "fnr"), ("tnr", "fpr"), ("ppv", "fdr"), ("npv", "for_"), ("topr", "tonr"),
               ("accuracy", "error_rate")]
ALPHAS = [1e-12, 1e-9, 0.01, 0.05, 0.3, 0.9, 0.999999]
SHAPES = [(1,), (3,), (0,), (2, 2), (2, 0, 3), (4, 2, 3)]


# counts large enough for n**3 (and n*n) to leave the int64 / int32 range: magnitudes are part of the state
BIG = [0, 1, 3_000_000, 40_000_000]


# small integer dtypes with cells near the top of their range: a sum of two cells leaves the dtype
SMALL = {"i8": (np.int8, [0, 1, 100, 127]), "u8": (np.uint8, [0, 1, 200, 255]), "i16": (np.int16, [0, 1, 30000, 32767]),
         "u16": (np.uint16, [0, 1, 40000, 65535]), "i32": (np.int32, [0, 1, 2**30, 2**31 - 1]),
         "u32": (np.uint32, [0, 1, 2**31, 2**32 - 1]), "u64": (np.uint64, [0, 1, 2**53 + 1, 2**54 + 3])}


def _entries(b, sc):
    if sc in SMALL:
        return SMALL[sc][1]
    return b["big_entries"] if sc in ("big", "big32") else b["entries"]


def _scale(sc):
    return 1 if sc in ("big", "big32") or sc in SMALL else sc


def _dtype(sc):
    if sc in SMALL:
        return SMALL[sc][0]
    return np.int32 if sc == "big32" else (np.int64 if sc in (1, "big") else np.float64)


def bounds(tier):
    if tier == "quick":
        return {"entries": [0, 1, 2, 5], "scales": [1, 0.5, 1e-10, 1e-170, 1e150, "big", "i8", "u8", "i32", "u64"], "alphas": ALPHAS,
                "leading_shapes": [list(s) for s in SHAPES], "big_entries": BIG}
    return {"entries": [0, 1, 2, 3, 5, 10], "scales": [1, 0.5, 1e-3, 1e6, 1e-10, 1e-12, 1e-170, 1e-300, 1e150, "big", "big32", "i8", "u8", "i16", "u16", "i32", "u32", "u64"], "alphas": ALPHAS,
            "leading_shapes": [list(s) for s in SHAPES], "big_entries": BIG}


def work(tier, seed):
    b = bounds(tier)
    items = []
    n = 24
    for sc in b["scales"]:
        mats = list(itertools.product(_entries(b, sc), repeat=4))
        for i in range(n):
            items.append({"kind": "single", "scale": sc, "mats": mats[i::n]})
        items.append({"kind": "stacked", "scale": sc})
    # long histories of distinct alphas (bounded caches / lookup tables keyed on alpha), re-querying the early ones
    for part in range(4):
        items.append({"kind": "alpha_sweep", "part": part, "n": 300 if tier == "quick" else 1500})
    return items


def definitions(m):
    """Exact values from a 2x2 list of Fractions."""
    (tp, fn), (fp, tn) = m
    d = {"tp": tp, "tn": tn, "fp": fp, "fn": fn, "p": tp + fn, "n": fp + tn, "top": tp + fp, "ton": fn + tn,
         "pop": tp + fn + fp + tn}

    def q(a, b_):
        return a / b_ if b_ != 0 else None

    d.update(tpr=q(tp, d["p"]), fnr=q(fn, d["p"]), tnr=q(tn, d["n"]), fpr=q(fp, d["n"]), ppv=q(tp, d["top"]),
             npv=q(tn, d["ton"]), fdr=q(fp, d["top"]), for_=q(fn, d["ton"]), topr=q(d["top"], d["pop"]),
             tonr=q(d["ton"], d["pop"]), accuracy=q(tp + tn, d["pop"]), error_rate=q(fp + fn, d["pop"]))
    return d


def _isnan(x):
    return isinstance(x, float) and math.isnan(x)


def _check_rate(ctx, case, name, got, want, tol):
    if want is None:
        if not _isnan(got):
            ctx.fail("nan-iff-zero-denominator", dict(case, metric=name), observed=got, expected="nan")
        return
    if _isnan(got):
        ctx.fail("nan-iff-zero-denominator", dict(case, metric=name), observed=got, expected=float(want))
        return
    if not abs(got - float(want)) <= tol:
        ctx.fail("rate-equals-definition", dict(case, metric=name), observed=got, expected=float(want))
    if not (0.0 <= got <= 1.0):
        ctx.fail("rate-in-unit-interval", dict(case, metric=name), observed=got, expected="[0,1]")


CUSTOMARY = [0.001, 0.005, 0.01, 0.02, 0.025, 0.05, 0.1, 0.2, 0.25, 0.32, 0.5]


def _run_alpha_sweep(item, ctx, seed):
    """
    One process, one long history of interval calls with pairwise distinct alphas: the customary levels, values
    that round to them (1e-4 .. 1e-2 relative away, and 1 - coverage), a dense ladder, then the first alphas
    again. Every answer is compared with the reference, so a lookup keyed on a rounded alpha or a bounded cache
    that serves a stale entry after eviction shows as a wrong half-width.
    """
    from score_analysis import ConfusionMatrix, metrics

    part, n = item["part"], item["n"]
    mats = [np.array([[30, 10], [5, 55]]), np.array([[3.5, 0.5], [0.0, 2.0]]), np.array([[1, 0], [0, 0]]),
            np.array([[[7, 3], [2, 8]], [[0, 0], [4, 1]]])]
    arr = mats[part]
    near = []
    for c in CUSTOMARY:
        near += [c, 1 - (1 - c), c * (1 + 6e-3), c * (1 - 4e-3), c + 3e-4, c - 4e-4, c * (1 + 1e-4), float(np.nextafter(c, 1)), float(np.nextafter(c, 0))]
    ladder = [(j + 0.37 + 0.01 * part) / (n + 1) for j in range(n)]
    first = near[: 12] + ladder[: 8]
    dyadic = [0.5, 0.25, 0.125, 0.375, 0.0625, 0.75]  # representable in float32 / float16: asked for in those types first
    hist = [np.float32(a) for a in dyadic] + [np.float16(a) for a in dyadic] + dyadic
    hist = hist + list(dict.fromkeys(near + ladder)) + first  # early alphas come back at the end
    cm = ConfusionMatrix(matrix=arr, binary=True)
    flat = arr.reshape(-1, 2, 2)
    ctx.state()
    for step, alpha in enumerate(hist):
        if not 0 < alpha < 1:
            continue
        narrow = isinstance(alpha, (np.float32, np.float16))
        for nm, (cn, nn) in CIS.items():
            api = "cm" if step % 2 else "metrics"
            case = {"kind": "alpha_sweep", "matrix": arr.tolist(), "step": step, "alpha": float(alpha), "alpha_type": type(alpha).__name__,
                    "metric": nm, "api": api,
                    "distinct_alphas_before": min(step, len(hist) - len(first))}
            f = (lambda: getattr(cm, nm)(alpha=alpha)) if api == "cm" else (lambda: getattr(metrics, nm)(arr, alpha=alpha))
            ok, ci = guarded(ctx, "ci-" + nm, case, f)
            ctx.tick()
            if not ok:
                continue
            ci = np.asarray(ci, dtype=float).reshape(-1, 2)
            for k in range(flat.shape[0]):
                d = definitions([[F(float(v)) for v in r] for r in flat[k].tolist()])
                if d[nn] == 0:
                    if not np.all(np.isnan(ci[k])):
                        ctx.fail("ci-nan-iff-rate-nan", case, observed=ci[k], expected="nan")
                    continue
                ctx.nontrivial()
                want = refs.ref_binomial_ci(float(d[cn]), float(d[nn]), float(alpha))
                mag = max(1.0, abs(want[0]), abs(want[1]))
                # double-precision alphas are judged to 1e-12 (the reference quantile is good to 1e-15); an alpha handed
                # over in a narrow float type only to the resolution of that type
                tol = (1e-12 if not narrow else 4 * float(np.finfo(type(alpha)).eps)) * mag
                if not (abs(ci[k][0] - want[0]) <= tol and abs(ci[k][1] - want[1]) <= tol):
                    ctx.fail("ci-equals-normal-approximation", dict(case, matrix_index=k), observed=ci[k], expected=want)
                    break
    ctx.outcome(("alpha_sweep", part, len(hist)))
    ctx.sample({"kind": "alpha_sweep", "part": part, "history_length": len(hist), "requeried": len(first)})
    return None


def run(item, ctx, tier, seed):
    from score_analysis import ConfusionMatrix, metrics

    if item["kind"] == "alpha_sweep":
        return _run_alpha_sweep(item, ctx, seed)
    b = bounds(tier)
    sc_name = item["scale"]
    dtype = _dtype(sc_name)
    sc = _scale(sc_name)
    exact_int = dtype != np.float64
    if item["kind"] == "single":
        for mt in item["mats"]:
            vals = [v * sc for v in mt]
            arr = np.array(vals, dtype=dtype).reshape(2, 2)
            exact = [[F(arr[0, 0].item()), F(arr[0, 1].item())], [F(arr[1, 0].item()), F(arr[1, 1].item())]]
            d = definitions(exact)
            case = {"matrix": arr.tolist(), "dtype": str(arr.dtype)}
            ctx.state()
            rt, ct = (d["p"], d["n"]), (d["top"], d["ton"])
            if 0 in rt or 0 in ct or (0 not in vals and (vals[0] != vals[3] or vals[1] != vals[2])):
                ctx.nontrivial()
            cm = ConfusionMatrix(matrix=arr, binary=True)
            obs = {}
            for api, get in (("metrics", lambda nm: getattr(metrics, nm)(arr)),
                             ("cm", lambda nm: getattr(cm, nm)())):
                c2 = dict(case, api=api)
                for nm in COUNTS:
                    ok, v = guarded(ctx, "count-" + nm, c2, get, nm)
                    ctx.tick()
                    # integer matrices: exact; float matrices: sums are rounded once, so 1e-12 relative
                    if ok and not (np.ndim(v) == 0 and (F(np.asarray(v).item()) == d[nm] if exact_int else
                                                         abs(float(v) - float(d[nm])) <= 1e-12 * max(1.0, abs(float(d[nm]))))):
                        ctx.fail("count-equals-definition", dict(c2, metric=nm), observed=v, expected=float(d[nm]))
                for nm in RATES:
                    ok, v = guarded(ctx, "rate-" + nm, c2, get, nm)
                    ctx.tick()
                    if not ok:
                        continue
                    if not isinstance(v, float):
                        ctx.fail("scalar-matrix-gives-python-float", dict(c2, metric=nm), observed=type(v).__name__,
                                 expected="float")
                        v = float(v)
                    obs[(api, nm)] = v
                    # (cells beyond 2^53 are rounded when they are converted for the division: two ulps there)
                    _check_rate(ctx, c2, nm, v, d[nm], 1e-12 if nm in ("fdr", "for_", "error_rate") or not exact_int else
                                (4.5e-16 if sc_name == "u64" else 0.0))
                for al, orig in ALIASES.items():
                    ok, v = guarded(ctx, "alias-" + al, c2, get, al)
                    ctx.tick()
                    if ok and not (v == obs.get((api, orig)) or (_isnan(v) and _isnan(obs.get((api, orig))))):
                        ctx.fail("alias-identical", dict(c2, alias=al), observed=v, expected=obs.get((api, orig)))
                for a_, b_ in COMPLEMENTS:
                    x, y = obs.get((api, a_)), obs.get((api, b_))
                    if x is None or y is None:
                        continue
                    if _isnan(x) != _isnan(y) or (not _isnan(x) and abs(x + y - 1.0) > 1e-12):
                        ctx.fail("complements-sum-to-one", dict(c2, pair=[a_, b_]), observed=[x, y], expected="sum 1 or both nan")
                # confidence intervals
                prev = {}
                for alpha in b["alphas"]:
                    cis = {}
                    for nm, (cn, nn) in CIS.items():
                        if api == "metrics":
                            f = lambda: getattr(metrics, nm)(arr, alpha=alpha)  # noqa: E731
                        else:
                            f = lambda: getattr(cm, nm)(alpha=alpha)  # noqa: E731
                        ok, ci = guarded(ctx, "ci-" + nm, dict(c2, alpha=alpha), f)
                        ctx.tick()
                        if not ok:
                            continue
                        ci = np.asarray(ci, dtype=float)
                        if ci.shape != (2,):
                            ctx.fail("ci-shape", dict(c2, metric=nm, alpha=alpha), observed=list(ci.shape), expected=[2])
                            continue
                        want = refs.ref_binomial_ci(float(d[cn]), float(d[nn]), alpha)
                        cis[nm] = ci
                        if d[nn] == 0:
                            if not np.all(np.isnan(ci)):
                                ctx.fail("ci-nan-iff-rate-nan", dict(c2, metric=nm, alpha=alpha), observed=ci, expected="nan")
                            continue
                        if np.any(np.isnan(ci)):
                            ctx.fail("ci-nan-iff-rate-nan", dict(c2, metric=nm, alpha=alpha), observed=ci, expected=want)
                            continue
                        mag = max(1.0, abs(want[0]), abs(want[1]))  # fractional weights give huge half-widths
                        if not (abs(ci[0] - want[0]) <= 1e-9 * mag and abs(ci[1] - want[1]) <= 1e-9 * mag):
                            ctx.fail("ci-equals-normal-approximation", dict(c2, metric=nm, alpha=alpha), observed=ci,
                                     expected=want)
                        centre = float(d[cn] / d[nn])
                        if abs((ci[0] + ci[1]) / 2 - centre) > 1e-12 * mag:
                            ctx.fail("ci-centred-on-rate", dict(c2, metric=nm, alpha=alpha), observed=ci, expected=centre)
                        if nm in prev and not (prev[nm][0] <= ci[0] + 1e-15 * mag and ci[1] <= prev[nm][1] + 1e-15 * mag):
                            ctx.fail("ci-nested-in-alpha", dict(c2, metric=nm, alpha=alpha), observed=ci, expected=prev[nm])
                    for x, y in (("tpr_ci", "fnr_ci"), ("tnr_ci", "fpr_ci")):
                        if x in cis and y in cis:
                            mir = 1.0 - cis[y][::-1]
                            if not np.allclose(cis[x], mir, rtol=1e-12, atol=1e-12, equal_nan=True):
                                ctx.fail("ci-of-complement-is-mirrored", dict(c2, pair=[x, y], alpha=alpha),
                                         observed=cis[x], expected=mir)
                    for al, orig in CI_ALIASES.items():
                        if api == "metrics":
                            f = lambda: getattr(metrics, al)(arr, alpha)  # noqa: E731
                        else:
                            f = lambda: getattr(cm, al)(alpha=alpha)  # noqa: E731
                        ok, v = guarded(ctx, "ci-alias-" + al, dict(c2, alpha=alpha), f)
                        ctx.tick()
                        if ok and orig in cis and not np.array_equal(np.asarray(v), cis[orig], equal_nan=True):
                            ctx.fail("alias-identical", dict(c2, alias=al, alpha=alpha), observed=v, expected=cis[orig])
                    prev = cis
            ctx.outcome(tuple(round(v, 12) if not _isnan(v) else -1 for (a, _), v in sorted(obs.items()) if a == "cm"))
        ctx.sample({"kind": "single", "scale": sc_name, "first_matrix": item["mats"][0], "n_matrices": len(item["mats"])})
        return None
    # ------------------------------------------------------------------ stacked
    mats = list(itertools.product(_entries(b, sc_name), repeat=4))
    allarr = (np.array(mats, dtype=float) * sc).astype(dtype).reshape(-1, 2, 2)
    names = COUNTS + RATES + list(ALIASES)
    per = {nm: np.array([np.asarray(getattr(metrics, nm)(m_), dtype=float) for m_ in allarr]) for nm in names}
    per_ci = {(nm, a): np.array([getattr(metrics, nm)(m_, alpha=a) for m_ in allarr])
              for nm in list(CIS) + list(CI_ALIASES) for a in b["alphas"]}
    variants = []
    for shape in [tuple(s) for s in b["leading_shapes"]] + [(len(mats),)]:
        size = int(np.prod(shape))
        idx = np.arange(size) % len(mats) if size else np.zeros((0,), dtype=int)
        # take a spread of matrices rather than the first few
        idx = (idx * 37 + 11) % len(mats) if shape != (len(mats),) else idx
        base_arr = allarr[idx].reshape(shape + (2, 2))
        variants.append((shape, idx, "C", base_arr))
        if len(shape) >= 2:
            # the same stack in other memory layouts of its leading axes (zero-denominator cells included)
            variants.append((shape, idx, "F", np.asfortranarray(base_arr)))
            variants.append((shape, idx, "T", np.ascontiguousarray(np.moveaxis(base_arr, 0, 1)).swapaxes(0, 1)))
    for shape, idx, layout, arr in variants:
        cm = ConfusionMatrix(matrix=arr, binary=True)
        case = {"kind": "stacked", "scale": sc_name, "leading_shape": list(shape), "layout": layout}
        ctx.state()
        for api in ("metrics", "cm"):
            for nm in names:
                f = (lambda: getattr(metrics, nm)(arr)) if api == "metrics" else (lambda: getattr(cm, nm)())
                ok, v = guarded(ctx, "stacked-" + nm, dict(case, api=api), f)
                ctx.tick()
                if not ok:
                    continue
                v = np.asarray(v, dtype=float)
                if v.shape != shape:
                    ctx.fail("stacked-shape", dict(case, api=api, metric=nm), observed=list(v.shape), expected=list(shape))
                    continue
                want = per[nm][idx].reshape(shape)
                # (another memory layout changes the order in which NumPy adds the four cells: equal to two ulps there,
                # bit for bit in C order; the NaN locus is exact in both)
                same = (np.array_equal(v, want, equal_nan=True) if layout == "C" else
                        (np.array_equal(np.isnan(v), np.isnan(want)) and np.allclose(v, want, rtol=4.5e-16, atol=0, equal_nan=True)))
                if not same:
                    ctx.fail("stacked-equals-per-matrix", dict(case, api=api, metric=nm), observed=v, expected=want)
            for (nm, a), pc in per_ci.items():
                f = ((lambda: getattr(metrics, nm)(arr, alpha=a)) if api == "metrics"
                     else (lambda: getattr(cm, nm)(alpha=a)))
                ok, v = guarded(ctx, "stacked-" + nm, dict(case, api=api, alpha=a), f)
                ctx.tick()
                if not ok:
                    continue
                v = np.asarray(v, dtype=float)
                if v.shape != shape + (2,):
                    ctx.fail("stacked-ci-shape", dict(case, api=api, metric=nm), observed=list(v.shape),
                             expected=list(shape) + [2])
                    continue
                want = pc[idx].reshape(shape + (2,))
                if not np.allclose(v, want, rtol=1e-15, atol=1e-15, equal_nan=True):
                    ctx.fail("stacked-ci-equals-per-matrix", dict(case, api=api, metric=nm, alpha=a), observed=v,
                             expected=want)
    ctx.sample({"kind": "stacked", "scale": sc_name, "shapes": b["leading_shapes"]})
    return None

"""C03 - extreme operating points are honoured exactly."""
from mc import ordertypes as ot
from mc.props import thresh_common as tc

ID = "C03"
TITLE = "Extreme operating points are honoured exactly"
ENGINE = "order-type-explorer"
RULE = (
    "state = (order type, concretisation, cfg, easy counts); transition = one (state, metric, extreme target, "
    "method) threshold_at_* call whose metric value is compared exactly with the metric's lowest/highest "
    "achievable value M(-inf)/M(+inf); non-trivial = relevant class has ties or a single score, or easy samples "
    "are present (the cases where rounding/shift matter) - counted; distinct by construction"
)
ASSUMPTIONS = [
    "lowest/highest achievable value of a metric = its value at -inf/+inf as computed by the same object",
    "targets r in {-0.5, -1e-9, 0, 1, 1+1e-9, 1.5}",
]


# the rescaling of targets for easy samples is rounding-sensitive in the (hard, easy) count pair, so the
# menu covers a square of small counts plus a long one-sided range for each class
EASY_Q = [[a, b] for a in range(4) for b in range(4)] + [[e, 0] for e in range(4, 14)] + [[0, e] for e in range(4, 14)]
EASY_T = ([[a, b] for a in range(5) for b in range(5)] + [[e, 0] for e in range(5, 41)] + [[0, e] for e in range(5, 41)]
          + [[7, 7], [10, 3], [3, 10], [27, 1], [1, 27]])


def bounds(tier):
    if tier == "quick":
        return {"max_pos": 3, "max_neg": 3, "easy": EASY_Q,
                "grids": ["irregular", "dyadic", "int", "float32", "mixed", "uint"], "targets": tc.EXTREME_TARGETS}
    return {"max_pos": 4, "max_neg": 4, "easy": EASY_T,
            "grids": ["irregular", "dyadic", "int", "negated", "ulp", "float32", "mixed", "uint"], "targets": tc.EXTREME_TARGETS}


def work(tier, seed):
    b = bounds(tier)
    items = []
    for bl in ot.order_types(b["max_pos"], b["max_neg"]):
        if not bl:
            continue
        for kind in b["grids"]:
            if kind == "ulp" and sum(a + c for a, c in bl) > 8:
                continue
            # thorough: the long easy-count menu on data sets of up to 6 scores, the square of small counts beyond
            big_ = tier != "quick" and sum(a + c for a, c in bl) > 6
            if big_ and kind not in ("irregular", "int", "uint"):
                continue
            items.append({"blocks": [list(x) for x in bl], "grid": kind, "scalars": False,
                          "small_easy": big_ or kind in ("float32", "mixed", "mixed_narrow", "mixed_narrow_neg", "mixed_f32", "negated", "ulp", "uint"),
                          "mutated": kind == "irregular" and not big_})
        if tier != "quick" or sum(a + c for a, c in bl) <= 4:
            for kind in ot.MIXED_KINDS[1:] + ["unit"]:
                items.append({"blocks": [list(x) for x in bl], "grid": kind, "scalars": False, "small_easy": True, "mutated": False})
    for n in (ot.LADDER_QUICK if tier == "quick" else ot.LADDER_THOROUGH):
        for tf in (True, False):
            items.append({"ladder": n, "tie_free": tf, "scalars": False, "small_easy": True})
    # every class size in a contiguous range: whether a rescaled target of exactly 1 survives the floating-point
    # arithmetic depends on the size itself (49, 98, 103, 107, 161, ... are the known bad ones for x*(1/x))
    top = 260 if tier == "quick" else 2100
    for lo_ in range(1, top + 1, 20):
        items.append({"sizes": [lo_, min(top, lo_ + 19)]})
    return items


def _run_sizes(item, ctx):
    import math

    import numpy as np
    from score_analysis import Scores

    lo_, hi_ = item["sizes"]
    tg = np.array(tc.EXTREME_TARGETS)
    for n in range(lo_, hi_ + 1):
        big = [0.5 * i for i in range(n)]
        for which in ("pos", "neg"):
            pos, neg = (big, [0.25, 3.25]) if which == "pos" else ([0.25, 3.25], big)
            for cfg in ot.CFGS:
                for ep, en in ((0, 0), (3, 0), (0, 3), (n, 1)):
                    s = Scores(pos, neg, nb_easy_pos=ep, nb_easy_neg=en, score_class=cfg[0], equal_class=cfg[1])
                    ctx.state()
                    for metric in tc.METRICS:
                        M = getattr(s, metric)
                        lo_m, hi_m = sorted((float(M(-math.inf)), float(M(math.inf))))
                        for method in tc.METHODS:
                            t = np.asarray(getattr(s, "threshold_at_" + metric)(tg, method=method), dtype=float)
                            got = np.asarray(M(t), dtype=float)
                            ctx.tick(len(tg))
                            ctx.nontrivial(len(tg))
                            want = np.where(tg <= 0.0, lo_m, hi_m)
                            if not np.array_equal(got, want):
                                k = int(np.argmax(got != want))
                                ctx.fail("extreme-exact", {"class_size": n, "big_class": which, "cfg": cfg, "easy": [ep, en],
                                                           "metric": metric, "r": float(tg[k]), "method": method},
                                         observed={"t": float(t[k]), "metric_at_t": float(got[k])}, expected={"metric": float(want[k])},
                                         snippet=("from score_analysis import Scores\n"
                                                  f"s = Scores([0.5 * i for i in range({n})], [0.25, 3.25], nb_easy_pos={ep}, nb_easy_neg={en}, "
                                                  f"score_class={cfg[0]!r}, equal_class={cfg[1]!r})  # big class: {which}\n"
                                                  f"t = s.threshold_at_{metric}({float(tg[k])!r}, method={method!r}); print(t, s.{metric}(t))\n"))
                                break
    ctx.sample({"sizes": item["sizes"], "targets": tc.EXTREME_TARGETS})
    return None


def run(item, ctx, tier, seed):
    if "sizes" in item:
        return _run_sizes(item, ctx)
    b = bounds(tier)
    easy = [tuple(e) for e in b["easy"]]
    if item.get("small_easy"):  # dtype / sign variants: the square of small counts only
        easy = [e for e in easy if max(e) <= 2]
    if "ladder" in item:
        easy = [(0, 0), (3, 5), (0, 7), (11, 0)]
    tc.explore(item, ctx, seed, easy, {"extremes"})

"""
Engine E2: the RNG answer tree (DESIGN.md §2.2).

The NumPy global RNG entry points used by the library are replaced by an oracle whose
every draw is a choice point with an explicit finite menu and exact probabilities.
`explore` enumerates all answer sequences (stateless DFS, prefix replay).
"""

from __future__ import annotations

import ast
import contextlib
import math
import os

import numpy as np

from mc.harness import HarnessError

OWNED = ("binomial", "choice", "poisson", "normal", "standard_normal", "randint", "permutation", "shuffle")
TRAPPED = (
    "rand", "randn", "random", "random_sample", "ranf", "sample", "uniform", "multinomial", "seed", "default_rng",
    "RandomState", "exponential", "gamma", "beta", "bytes", "random_integers", "geometric",
    "hypergeometric", "laplace", "logistic", "lognormal", "multivariate_normal", "negative_binomial", "pareto",
    "rayleigh", "standard_cauchy", "standard_exponential", "standard_gamma", "standard_t", "triangular", "vonmises",
    "wald", "weibull", "zipf", "chisquare", "dirichlet", "f", "gumbel", "get_state", "set_state", "Generator",
)
POISSON_MENU = (0, 1, 2, 3)


class Divergence(HarnessError):
    pass


class UnownedRNG(HarnessError):
    pass


def _binom_pmf(n, p):
    n = int(n)
    p = float(p)
    if not (0.0 <= p <= 1.0) or n < 0:
        raise ValueError("n < 0 or p outside [0,1]")
    if p == 0.0:
        return [(0, 1.0)]
    if p == 1.0:
        return [(n, 1.0)]
    return [(k, math.comb(n, k) * p**k * (1 - p) ** (n - k)) for k in range(n + 1)]


class Oracle:
    """One execution: replays `prefix`, then answers index 0 at every later choice point."""

    def __init__(self, prefix=(), max_points=400, cycle_uniform=False):
        # cycle_uniform: beyond the prefix, uniform draws (choice / randint) answer 0, 1, 2, ... in turn instead of
        # always 0, so that rejection loops ("draw until enough distinct values") terminate in single-run mode
        self.cycle_uniform = cycle_uniform
        self.prefix = list(prefix)
        self.trace = []  # (kind, params, [(answer, prob)...], chosen index)
        self.prob = 1.0
        self.exact = True  # False once a discretised (non-exact) menu was used
        self.batches = 0  # counter of vectorised (size=) requests; batch id is part of the params
        self.defaults = []
        self.nondeterministic = False
        self.max_points = max_points

    # ------------------------------------------------------------------ core
    def choose(self, kind, params, menu):
        menu = [(a, p) for a, p in menu if p > 0.0]
        if not menu:
            raise HarnessError(f"empty menu for {kind}{params}")
        i = len(self.trace)
        if i >= self.max_points:
            raise HarnessError("answer tree deeper than max_points (cap hit)")
        if i < len(self.prefix):
            c = self.prefix[i]
            if not (0 <= c < len(menu)):
                raise Divergence(f"replay divergence at point {i}: choice {c} not in menu of {len(menu)} ({kind}{params})")
        elif self.cycle_uniform and kind in ("choice", "randint"):
            c = i % len(menu)
        else:
            c = 0
        self.trace.append((kind, params, menu, c))
        self.prob *= menu[c][1]
        return menu[c][0]

    # --------------------------------------------------------- distributions
    def binomial(self, n, p, size=None):
        if size is None and np.ndim(n) == 0 and np.ndim(p) == 0:
            return self.choose("binomial", (int(n), float(p)), _binom_pmf(n, p))
        shape = np.broadcast(np.asarray(n), np.asarray(p)).shape if size is None else (
            (size,) if np.isscalar(size) else tuple(size))
        nn = np.broadcast_to(np.asarray(n), shape).reshape(-1)
        pp = np.broadcast_to(np.asarray(p, dtype=float), shape).reshape(-1)
        out = np.empty(len(nn), dtype=np.int64)
        self.batches += 1
        for j in range(len(nn)):
            out[j] = self.choose("binomial", (int(nn[j]), float(pp[j]), self.batches, len(nn)),
                                 _binom_pmf(nn[j], pp[j]))
        return out.reshape(shape)

    def poisson(self, lam=1.0, size=None):
        def one(l_, batch=0, bsize=0):
            l_ = float(l_)
            menu = [(k, math.exp(-l_) * l_**k / math.factorial(k)) for k in POISSON_MENU]
            self.exact = False  # truncated tail: leaf masses no longer sum to 1
            return self.choose("poisson", (l_, batch, bsize), menu)

        if size is None and np.ndim(lam) == 0:
            return one(lam)
        shape = np.shape(lam) if size is None else ((size,) if np.isscalar(size) else tuple(size))
        ll = np.broadcast_to(np.asarray(lam, dtype=float), shape).reshape(-1)
        self.batches += 1
        return np.array([one(v, self.batches, len(ll)) for v in ll], dtype=np.int64).reshape(shape)

    def normal(self, loc=0.0, scale=1.0, size=None):
        self.exact = False

        def one(m, s):
            m, s = float(m), float(s)
            if s == 0.0 or math.isnan(s):
                return self.choose("normal", (m, s), [(m, 1.0)])
            return self.choose("normal", (m, s), [(m, 0.5), (m - 2 * s, 0.25), (m + 2 * s, 0.25)])

        if size is None and np.ndim(loc) == 0 and np.ndim(scale) == 0:
            return one(loc, scale)
        shape = np.broadcast(np.asarray(loc), np.asarray(scale)).shape if size is None else (
            (size,) if np.isscalar(size) else tuple(size))
        mm = np.broadcast_to(np.asarray(loc, dtype=float), shape).reshape(-1)
        ss = np.broadcast_to(np.asarray(scale, dtype=float), shape).reshape(-1)
        return np.array([one(a, b) for a, b in zip(mm, ss)], dtype=float).reshape(shape)

    def standard_normal(self, size=None):
        return self.normal(0.0, 1.0, size)

    def choice(self, a, size=None, replace=True, p=None):
        if np.ndim(a) == 0:
            pop_n = int(a)
            if pop_n < 0:
                raise ValueError("a must be a positive integer unless no samples are taken")
            values = None
        else:
            values = np.asarray(a)
            if values.ndim != 1:
                raise ValueError("a must be 1-dimensional")
            pop_n = len(values)
        k = 1 if size is None else int(np.prod(size))
        if pop_n == 0 and k > 0:
            raise ValueError("a cannot be empty unless no samples are taken")
        if not replace and k > pop_n:
            raise ValueError("Cannot take a larger sample than population when 'replace=False'")
        weights = None
        if p is not None:
            weights = [float(x) for x in np.asarray(p, dtype=float)]
            if len(weights) != pop_n:
                raise ValueError("'a' and 'p' must have same size")
            if any(w < 0 for w in weights):
                raise ValueError("probabilities are not non-negative")
            if abs(sum(weights) - 1.0) > 1e-8:
                raise ValueError("probabilities do not sum to 1")
        picks = []
        remaining = list(range(pop_n))
        for _ in range(k):
            if weights is None:
                menu = [(i, 1.0 / len(remaining)) for i in remaining]
            else:
                tot = sum(weights[i] for i in remaining)
                menu = [(i, weights[i] / tot) for i in remaining]
            c = self.choose("choice", (pop_n, bool(replace), len(remaining)), menu)
            picks.append(c)
            if not replace:
                remaining.remove(c)
        idx = np.array(picks, dtype=np.int64)
        res = idx if values is None else values[idx]
        if size is None:
            return res[0]
        return res.reshape(size if not np.isscalar(size) else (size,))

    def randint(self, low, high=None, size=None, dtype=int):
        if high is None:
            low, high = 0, low
        low, high = int(low), int(high)
        if high <= low:
            raise ValueError("low >= high")
        k = 1 if size is None else int(np.prod(size))
        out = [self.choose("randint", (low, high), [(v, 1.0 / (high - low)) for v in range(low, high)]) for _ in range(k)]
        if size is None:
            return out[0]
        return np.array(out, dtype=dtype).reshape(size if not np.isscalar(size) else (size,))

    def permutation(self, x):
        arr = np.arange(x) if np.ndim(x) == 0 else np.array(x)
        idx = self.choice(len(arr), size=len(arr), replace=False)
        return arr[idx]

    def shuffle(self, x):
        """In place; answers: identity and reversal (a 2-point discretisation, not exact)."""
        self.exact = False
        n = len(x)
        if n <= 1:
            return None
        how = self.choose("shuffle", (n,), [("identity", 0.5), ("reverse", 0.5)])
        if how == "reverse":
            x[:] = x[::-1].copy() if isinstance(x, np.ndarray) else x[::-1]
        return None

    # Generator API spellings used with rng=
    def integers(self, low, high=None, size=None, dtype=int, endpoint=False):
        if high is None:
            low, high = 0, low
        return self.randint(low, high + (1 if endpoint else 0), size=size, dtype=dtype)

    def __getattr__(self, name):  # any other Generator method is an unowned entry point
        raise UnownedRNG(f"unowned RNG entry point: rng.{name}")

    @property
    def choices(self):
        return [t[3] for t in self.trace]

    def requests(self):
        return [(t[0], t[1], t[2][t[3]][0]) for t in self.trace]


def _trap(name):
    def f(*a, **k):
        raise UnownedRNG(f"unowned RNG entry point: numpy.random.{name}")

    return f


@contextlib.contextmanager
def owned(oracle):
    """Route numpy.random's module-level functions to the oracle; trap everything else."""
    saved = {}
    try:
        for nm in OWNED:
            saved[nm] = getattr(np.random, nm)
            setattr(np.random, nm, getattr(oracle, nm))
        for nm in TRAPPED:
            if hasattr(np.random, nm):
                saved[nm] = getattr(np.random, nm)
                setattr(np.random, nm, _trap(nm))
        yield oracle
    finally:
        for nm, f in saved.items():
            setattr(np.random, nm, f)


def explore(fn, observe=None, use_global=True, twice=True, max_leaves=2_000_000, max_points=400):
    """
    Enumerate every answer sequence of fn(oracle).  Yields (oracle, result) per leaf.
    fn must be a pure function of the answers; with twice=True every leaf is executed a
    second time from its full choice list and must reproduce the same trace and observation.
    """
    stack = [[]]
    leaves = 0
    while stack:
        prefix = stack.pop()
        orc = Oracle(prefix, max_points)
        if use_global:
            with owned(orc):
                res = fn(orc)
        else:
            res = fn(orc)
        if len(orc.trace) < len(prefix):
            raise Divergence(f"replay consumed {len(orc.trace)} of {len(prefix)} prefix answers")
        if twice:
            orc2 = Oracle(orc.choices, max_points)
            if use_global:
                with owned(orc2):
                    res2 = fn(orc2)
            else:
                res2 = fn(orc2)
            same = [(t[0], t[1], t[3]) for t in orc.trace] == [(t[0], t[1], t[3]) for t in orc2.trace]
            if observe is not None:
                same = same and observe(res) == observe(res2)
            if not same:
                orc.nondeterministic = True
            else:
                orc.nondeterministic = False
        else:
            orc.nondeterministic = False
        leaves += 1
        if leaves > max_leaves:
            raise HarnessError(f"answer tree larger than {max_leaves} leaves (cap hit)")
        yield orc, res
        for i in range(len(orc.trace) - 1, len(prefix) - 1, -1):
            for alt in range(len(orc.trace[i][2]) - 1, 0, -1):
                stack.append(orc.choices[:i] + [alt])


def explore_deviations(fn, default_choice, d, use_global=True, max_points=5000):
    """
    Deviation-bounded exploration: the default answer at each point is default_choice(kind, params, menu)
    (an index); all runs with at most d departures from it are explored.
    """

    class DevOracle(Oracle):
        def __init__(self, devs):
            super().__init__((), max_points)
            self.devs = dict(devs)  # point index -> menu index

        def choose(self, kind, params, menu):
            menu = [(a, p) for a, p in menu if p > 0.0]
            i = len(self.trace)
            dflt = default_choice(kind, params, menu)
            c = self.devs.get(i, dflt)
            if not (0 <= c < len(menu)):
                c = dflt
            self.trace.append((kind, params, menu, c))
            self.prob *= menu[c][1]
            self.defaults.append(dflt)
            return menu[c][0]

    seen = set()
    stack = [()]
    while stack:
        devs = stack.pop()
        if devs in seen:
            continue
        seen.add(devs)
        orc = DevOracle(devs)
        if use_global:
            with owned(orc):
                res = fn(orc)
        else:
            res = fn(orc)
        yield orc, res, devs
        if len(devs) < d:
            last = max((i for i, _ in devs), default=-1)
            for i in range(last + 1, len(orc.trace)):
                for alt in range(len(orc.trace[i][2])):
                    if alt != orc.defaults[i]:
                        stack.append(tuple(sorted(devs + ((i, alt),))))


# --------------------------------------------------------------------------- #
# static ownership scan
# --------------------------------------------------------------------------- #
def scan_entropy_sources(repo):
    """
    Every attribute used on `np.random` / `numpy.random` / `random` and every import of an entropy
    source in score_analysis/. Returns (used names, foreign imports).
    """
    used, foreign = set(), set()
    root = os.path.join(repo, "score_analysis")
    for dp, _, files in os.walk(root):
        for f in files:
            if not f.endswith(".py"):
                continue
            src = open(os.path.join(dp, f)).read()
            tree = ast.parse(src)
            for node in ast.walk(tree):
                if isinstance(node, ast.Attribute) and isinstance(node.value, ast.Attribute):
                    v = node.value
                    if v.attr == "random" and isinstance(v.value, ast.Name) and v.value.id in ("np", "numpy"):
                        used.add(node.attr)
                if isinstance(node, ast.Import):
                    for a in node.names:
                        if a.name.split(".")[0] in ("random", "secrets", "time", "uuid"):
                            foreign.add(a.name)
                if isinstance(node, ast.ImportFrom) and node.module:
                    if node.module.split(".")[0] in ("random", "secrets", "time", "uuid") or node.module == "numpy.random":
                        foreign.add(node.module)
                if isinstance(node, ast.Attribute) and node.attr == "urandom":
                    foreign.add("os.urandom")
    return used, foreign


def assert_owned(repo):
    used, foreign = scan_entropy_sources(repo)
    # Generator annotations / default_rng are only reached when rng=None; checks always pass rng
    allowed = set(OWNED) | {"Generator", "default_rng"}
    bad = used - allowed
    if bad or foreign:
        raise UnownedRNG(f"library reaches entropy sources the harness does not own: {sorted(bad)} {sorted(foreign)}")
    return sorted(used)

#!/venv/bin/python
"""
Confirm a sub-agent's seeded change and file it under /verif/seeded/<id>/.

    tools/seed_verify.py /tmp/seed/out_C01/change1 C01 [--id S-C01-1] [--props C01,C10]

Steps (all in a scratch copy of /repo under /tmp, removed afterwards):
  1. demo.py passes on the unchanged copy (exit 0)
  2. patch applies; baseline test suite passes with it
  3. demo.py fails with it (exit != 0)
Only then the change is kept: patch.diff, demo.py, notes.md, meta.json.
"""
import argparse
import json
import os
import shutil
import subprocess
import sys
import tempfile

HERE = os.path.dirname(os.path.dirname(os.path.abspath(__file__)))


def sh(cmd, cwd, timeout=1800):
    r = subprocess.run(cmd, cwd=cwd, capture_output=True, text=True, timeout=timeout)
    return r.returncode, (r.stdout + r.stderr)


def main():
    ap = argparse.ArgumentParser()
    ap.add_argument("src")
    ap.add_argument("prop")
    ap.add_argument("--id", default=None)
    ap.add_argument("--props", default=None)
    args = ap.parse_args()
    src = os.path.abspath(args.src)
    sid = args.id or f"S-{args.prop}-{os.path.basename(src).replace('change', '')}"
    patch = os.path.join(src, "patch.diff")
    demo = os.path.join(src, "demo.py")
    d = tempfile.mkdtemp(prefix="sa_seed_", dir="/tmp")
    log = {}
    try:
        subprocess.check_call(["rsync", "-a", "--exclude", ".git", "--exclude", "__pycache__", "/repo/", d + "/"])
        rc, out = sh(["/venv/bin/python", demo], d)
        log["demo_unpatched"] = {"rc": rc, "tail": out[-300:]}
        if rc != 0:
            print(f"{sid}: REJECT demo fails on the unchanged tree\n{out[-500:]}")
            return 1
        rc, out = sh(["patch", "-p1", "-i", patch], d)
        if rc != 0:
            print(f"{sid}: REJECT patch does not apply\n{out[-500:]}")
            return 1
        rc, out = sh(["/venv/bin/python", "-m", "pytest", "-q", "-p", "no:cacheprovider", "--timeout=900"], d)
        tail = (out.strip().splitlines() or [""])[-1]
        log["tests_patched"] = {"rc": rc, "tail": tail}
        if rc != 0:
            print(f"{sid}: REJECT test suite fails with the patch: {tail}")
            return 1
        rc, out = sh(["/venv/bin/python", demo], d)
        log["demo_patched"] = {"rc": rc, "tail": out[-400:]}
        if rc == 0:
            print(f"{sid}: REJECT demo passes with the patch")
            return 1
    finally:
        shutil.rmtree(d, ignore_errors=True)
    dst = os.path.join(HERE, "seeded", sid)
    os.makedirs(dst, exist_ok=True)
    for f in ("patch.diff", "demo.py", "notes.md"):
        if os.path.exists(os.path.join(src, f)):
            shutil.copy(os.path.join(src, f), os.path.join(dst, f))
    notes = open(os.path.join(src, "notes.md")).read() if os.path.exists(os.path.join(src, "notes.md")) else ""
    meta = {
        "id": sid,
        "property": args.prop,
        "properties": (args.props.split(",") if args.props else [args.prop]),
        "needs_to_manifest": "see notes.md",
        "confirmed": log,
        "what_i_ran": [
            "scratch copy of /repo (rsync, no .git) under /tmp",
            "demo.py on the unchanged copy -> exit 0",
            "patch -p1 < patch.diff; /venv/bin/python -m pytest -q -p no:cacheprovider -> all pass",
            "demo.py on the patched copy -> exit != 0",
        ],
        "origin": "independent sub-agent given only the property text and a scratch worktree",
    }
    json.dump(meta, open(os.path.join(dst, "meta.json"), "w"), indent=1)
    print(f"{sid}: KEPT ({log['tests_patched']['tail']})")
    return 0


if __name__ == "__main__":
    sys.exit(main())

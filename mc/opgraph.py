"""
Engine E3: explicit-state search over operation sequences on live objects (DESIGN.md §2.3).

state      = canonical snapshot of an object (everything a query could corrupt, caches included)
event      = (name, fn(obj, env) -> result); env holds the caller-owned argument arrays
invariants = (i) result == result of the same event on a freshly built object,
             (ii) the observable (non-cache) part of the snapshot is unchanged,
             (iii) caller-owned arrays are unchanged,
             (iv) the same event twice in a row gives identical results.
The search runs to a fixpoint (every event maps every reachable state to a seen state) or to max_states.
"""

from __future__ import annotations

import collections
import copy
import hashlib

import numpy as np


def canon(x, depth=0):
    """Canonical, hashable, NaN-safe form of a result / object field."""
    if depth > 12:
        return ("deep", repr(type(x)))
    if x is None or isinstance(x, (bool, int, str)):
        return (type(x).__name__, x)
    if isinstance(x, float):
        return ("float", "nan" if x != x else repr(x))
    if isinstance(x, np.generic):
        return ("npscalar", str(x.dtype), canon(x.item(), depth + 1))
    if isinstance(x, np.ndarray):
        if x.dtype == object:
            return ("ndarray-object", x.shape, tuple(canon(v, depth + 1) for v in x.reshape(-1).tolist()))
        return ("ndarray", str(x.dtype), x.shape, hashlib.sha1(np.ascontiguousarray(x).tobytes()).hexdigest())
    if isinstance(x, (list, tuple)):
        return (type(x).__name__, tuple(canon(v, depth + 1) for v in x))
    if isinstance(x, dict):
        return ("dict", tuple(sorted((repr(k), canon(v, depth + 1)) for k, v in x.items())))
    if isinstance(x, BaseException):
        return ("raises", type(x).__name__)
    if hasattr(x, "matrix") and hasattr(x, "classes"):
        return ("ConfusionMatrix", canon(np.asarray(x.matrix), depth + 1), canon(np.asarray(x.classes), depth + 1),
                bool(x.binary))
    if hasattr(x, "pos") and hasattr(x, "neg") and hasattr(x, "score_class"):
        return ("Scores",) + snapshot_scores(x)[0]
    if hasattr(x, "fnr") and hasattr(x, "thresholds"):
        return ("ROCCurve", canon(x.fnr, depth + 1), canon(x.fpr, depth + 1), canon(x.thresholds, depth + 1),
                canon(x.fnr_ci, depth + 1), canon(x.fpr_ci, depth + 1))
    if hasattr(x, "values") and hasattr(x, "index") and hasattr(x, "columns"):  # DataFrame
        return ("DataFrame", canon(np.asarray(x.values), depth + 1), tuple(map(repr, x.index)),
                tuple(map(repr, x.columns)))
    if hasattr(x, "__dict__"):
        return (type(x).__name__, canon({k: v for k, v in vars(x).items()}, depth + 1))
    return ("repr", repr(x))


def snapshot_scores(obj):
    """(observable part, cache part) of a Scores / GroupScores / FraudScores object."""
    core = [canon(np.asarray(obj.pos)), canon(np.asarray(obj.neg)), ("easy", int(obj.nb_easy_pos), int(obj.nb_easy_neg)),
            ("flags", obj.score_class.value, obj.equal_class.value)]
    cache = ()
    if hasattr(obj, "pos_groups"):
        core += [canon(np.asarray(obj.pos_groups)), canon(np.asarray(obj.neg_groups)), canon(np.asarray(obj.groups))]
        gs = getattr(obj, "_grouped_scores", {})
        cache = tuple(sorted((repr(k), snapshot_scores(v)[0]) for k, v in gs.items()))
    extra = sorted(k for k in vars(obj) if k not in ("pos", "neg", "nb_easy_pos", "nb_easy_neg", "score_class",
                                                      "equal_class", "pos_groups", "neg_groups", "groups",
                                                      "_grouped_scores"))
    # any attribute a query adds to the object is hidden state and part of the snapshot
    extras = tuple((k, canon(getattr(obj, k))) for k in extra)
    return tuple(core), (cache, extras)


def snapshot_cm(obj):
    return (canon(np.asarray(obj.matrix)), canon(np.asarray(obj.classes)), bool(obj.binary)), (
        tuple((k, canon(v)) for k, v in sorted(vars(obj).items()) if k not in ("matrix", "classes", "binary")),)


def run_event(fn, obj, env):
    try:
        return fn(obj, env)
    except Exception as e:  # exceptions are results, too (e.g. documented ValueError)
        return e


def explore(make_obj, make_env, events, snapshot, ctx, case, max_states=64, max_depth=None, perturb=None):
    """
    Returns dict(states=, transitions=, outcomes=, fixpoint=bool).
    events: list of (name, fn).  make_env() -> dict of caller-owned arrays (fresh each time).
    """
    rng_state0 = np.random.get_state()[1][:8].tobytes()
    fresh_results = {}
    for name, fn in events:
        o, env = make_obj(), make_env()
        fresh_results[name] = canon(run_event(fn, o, env))
    init = make_obj()
    key0 = snapshot(init)
    seen = {key0: ()}
    frontier = collections.deque([(init, ())])
    transitions = 0
    outcomes = set()
    fix = True
    while frontier:
        obj, hist = frontier.popleft()
        if max_depth is not None and len(hist) >= max_depth:
            fix = False
            continue
        core_before = snapshot(obj)[0]
        for name, fn in events:
            o2 = copy.deepcopy(obj)
            env = make_env()
            env_before = {k: canon(v) for k, v in env.items()}
            raw = run_event(fn, o2, env)
            res = canon(raw)
            transitions += 1
            ctx.tick()
            outcomes.add((name, res))
            h2 = hist + (name,)
            if res != fresh_results[name]:
                ctx.fail("result-independent-of-history", dict(case, history=list(h2)), observed=res,
                         expected=fresh_results[name])
            k2 = snapshot(o2)
            if k2[0] != core_before:
                ctx.fail("query-does-not-mutate-object", dict(case, history=list(h2)), observed=k2[0],
                         expected=core_before)
            for k, v in env.items():
                if canon(v) != env_before[k]:
                    ctx.fail("caller-array-unchanged", dict(case, history=list(h2), argument=k), observed=canon(v),
                             expected=env_before[k])
            # same event again on the successor: identical result
            env2 = make_env()
            res2 = canon(run_event(fn, o2, env2))
            transitions += 1
            ctx.tick()
            if res2 != res:
                ctx.fail("repeated-query-identical", dict(case, history=list(h2) + [name]), observed=res2, expected=res)
            # a result is a value: later queries (same query with other arguments, the next query of the
            # alphabet) must not change an object that was returned earlier
            if perturb is not None:
                for pn, pf in perturb(name):
                    run_event(pf, o2, make_env())
                    transitions += 1
                    ctx.tick()
                if canon(raw) != res:
                    ctx.fail("returned-result-not-overwritten-by-later-queries", dict(case, history=list(h2)),
                             observed=canon(raw), expected=res)
            k3 = snapshot(o2)
            if k3 not in seen:
                if len(seen) >= max_states:
                    fix = False
                    continue
                seen[k3] = h2
                frontier.append((o2, h2))
    if np.random.get_state()[1][:8].tobytes() != rng_state0 and not case.get("uses_global_rng"):
        ctx.fail("global-rng-untouched-by-deterministic-queries", case, observed="state changed", expected="unchanged")
    for o in outcomes:
        ctx.outcome(o)
    return {"states": len(seen), "transitions": transitions, "outcomes": len(outcomes), "fixpoint": fix}
